//! Compiles only if `regexml::Regex` is Send + Sync (C18).
fn assert_send_sync<T: Send + Sync>() {}

pub fn check() {
    assert_send_sync::<regexml::Regex>();
}
