fn main() { println!("{}", regexml::Regex::xpath("a", "").unwrap().is_match("a")); let _ = regexml::verif_hooks::take_force_progress_cutoffs(); }
