mod ast;
mod driver;
mod enumerate;
mod fuzz_ast;
mod fuzz_decode;
mod fuzzrun;
mod gen;
mod known;
mod oracle_bt;
mod oracle_lang;
mod props;
mod proto;
mod supervisor;
mod ucd;
mod worker;
mod worker_history;

use driver::Tier;

fn usage() -> ! {
    eprintln!("usage: verif check <ID> [--tier quick|thorough] [--seed N]\n       verif replay <file>\n       verif probe <dialect> <pattern> <flags> <input> [replacement]");
    std::process::exit(2)
}

fn main() {
    let args: Vec<String> = std::env::args().collect();
    if args.len() >= 2 && args[1] == "--worker" {
        worker::worker_main();
    }
    if args.len() < 3 {
        usage();
    }
    match args[1].as_str() {
        "check" => {
            let id = args[2].clone();
            let mut tier = match std::env::var("VERIF_TIER").as_deref() {
                Ok("thorough") => Tier::Thorough,
                _ => Tier::Quick,
            };
            let mut seed: u64 = std::env::var("VERIF_SEED").ok().and_then(|s| s.parse().ok()).unwrap_or(0);
            let mut i = 3;
            while i < args.len() {
                match args[i].as_str() {
                    "--tier" => {
                        tier = if args.get(i + 1).map(|s| s.as_str()) == Some("thorough") { Tier::Thorough } else { Tier::Quick };
                        i += 1;
                    }
                    "--seed" => {
                        seed = args.get(i + 1).and_then(|s| s.parse().ok()).unwrap_or(0);
                        i += 1;
                    }
                    _ => usage(),
                }
                i += 1;
            }
            std::process::exit(props::dispatch_check(&id, tier, seed));
        }
        "replay" => {
            let text = std::fs::read_to_string(&args[2]).unwrap_or_else(|e| {
                eprintln!("harness error: {}: {e}", args[2]);
                std::process::exit(2)
            });
            let v: serde_json::Value = serde_json::from_str(&text).unwrap_or_else(|e| {
                eprintln!("harness error: {}: {e}", args[2]);
                std::process::exit(2)
            });
            let id = v["property"].as_str().unwrap_or("").to_string();
            std::process::exit(props::dispatch_replay(&id, &args[2]));
        }
        "probe" => {
            if args.len() < 6 {
                usage();
            }
            let d = if args[2] == "xsd" { proto::Dialect::Xsd } else { proto::Dialect::XPath };
            let mut job = proto::Job::new(d, &args[3], &args[4]);
            job.inputs = vec![args[5].clone()];
            job.replacements = vec![args.get(6).cloned().unwrap_or_else(|| "[$0]".to_string())];
            job.no_opt = std::env::var("NO_OPT").is_ok();
            let mut w = supervisor::WorkerHandle::new();
            println!("{:#?}", w.run(&job));
        }
        _ => usage(),
    }
}
