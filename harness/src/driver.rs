//! Generic check driver: corpus replay, known-finding witnesses, bounded-exhaustive enumeration,
//! seeded random generation with shrinking (proptest), evidence, replay files.
use crate::known::Known;
use crate::supervisor::WorkerHandle;
use proptest::strategy::{BoxedStrategy, Strategy};
use proptest::test_runner::{Config, RngSeed, TestCaseError, TestError, TestRunner};
use serde::de::DeserializeOwned;
use serde::Serialize;
use serde_json::{json, Value};
use std::collections::{BTreeMap, HashSet};
use std::hash::{Hash, Hasher};
use std::sync::atomic::{AtomicBool, AtomicU64, Ordering};
use std::sync::Mutex;
use std::time::Instant;

#[derive(Clone, Copy, Debug, PartialEq, Eq)]
pub enum Tier {
    Quick,
    Thorough,
}

impl Tier {
    pub fn name(&self) -> &'static str {
        match self {
            Tier::Quick => "quick",
            Tier::Thorough => "thorough",
        }
    }
    pub fn pick<T>(&self, q: T, t: T) -> T {
        match self {
            Tier::Quick => q,
            Tier::Thorough => t,
        }
    }
}

#[derive(Clone, Debug)]
pub struct Failure {
    pub sub: String,
    pub expected: String,
    pub actual: String,
    pub detail: String,
}

#[derive(Clone, Debug)]
pub enum Verdict {
    Pass,
    Skip(&'static str),
    Known(String),
    Fail(Failure),
}

/// Per-thread observation counters.
#[derive(Default)]
pub struct Obs {
    pub evaluations: u64,
    pub labels: BTreeMap<String, u64>,
    pub nontrivial: HashSet<u64>,
    pub nontrivial_overflow: u64,
    pub samples: Vec<Value>,
    pub skipped: BTreeMap<String, u64>,
    pub known_attributed: BTreeMap<String, u64>,
    pub cases: u64,
    pub frozen: bool,
}

/// hangs seen by checks that do not judge hangs themselves; too many make the run inconclusive (exit 2)
pub static HANGS: AtomicU64 = AtomicU64::new(0);
/// 40 in the quick tier, 600 in the thorough tier (twenty times the cases; a hang costs one CPU budget and a worker restart)
pub static MAX_HANGS: AtomicU64 = AtomicU64::new(40);

fn note_skip(reason: &str, stop: &AtomicBool) {
    if reason == "hang" && HANGS.fetch_add(1, Ordering::Relaxed) + 1 > MAX_HANGS.load(Ordering::Relaxed) {
        stop.store(true, Ordering::Relaxed);
    }
}

pub fn hash_of<T: Hash>(t: &T) -> u64 {
    let mut h = std::collections::hash_map::DefaultHasher::new();
    t.hash(&mut h);
    h.finish()
}

impl Obs {
    pub fn label(&mut self, l: &str) {
        if !self.frozen {
            *self.labels.entry(l.to_string()).or_insert(0) += 1;
        }
    }
    pub fn eval(&mut self, n: u64) {
        if !self.frozen {
            self.evaluations += n;
        }
    }
    /// record a distinct non-trivial case by key
    pub fn nontrivial<T: Hash>(&mut self, key: &T) {
        if self.frozen {
            return;
        }
        if self.nontrivial.len() < 2_000_000 {
            self.nontrivial.insert(hash_of(key));
        } else {
            self.nontrivial_overflow += 1;
        }
    }
    pub fn sample(&mut self, v: impl FnOnce() -> Value) {
        if self.frozen {
            return;
        }
        // first few, then sparse
        if self.samples.len() < 4 || (self.samples.len() < 12 && self.cases % 997 == 0) {
            self.samples.push(v());
        }
    }
    fn merge(&mut self, o: Obs) {
        self.evaluations += o.evaluations;
        self.cases += o.cases;
        for (k, v) in o.labels {
            *self.labels.entry(k).or_insert(0) += v;
        }
        for (k, v) in o.skipped {
            *self.skipped.entry(k).or_insert(0) += v;
        }
        for (k, v) in o.known_attributed {
            *self.known_attributed.entry(k).or_insert(0) += v;
        }
        self.nontrivial.extend(o.nontrivial);
        self.nontrivial_overflow += o.nontrivial_overflow;
        // a few from every merged observer (one per phase and thread); the evidence keeps 24 spread over all of them
        for s in o.samples.into_iter().take(3) {
            if self.samples.len() < 2000 && !self.samples.contains(&s) {
                self.samples.push(s);
            }
        }
    }
}

pub struct Ctx<'a> {
    pub w: &'a mut WorkerHandle,
    pub obs: &'a mut Obs,
    pub known: &'a Known,
    pub tier: Tier,
    /// strict mode (replay): no tolerance switches
    pub replay: bool,
}

pub struct Part<C> {
    pub name: String,
    pub strategy: BoxedStrategy<C>,
    pub cases: u32,
}

pub struct Guard {
    /// label must be at least this fraction of `of` label (or of cases when `of` is empty)
    pub label: String,
    pub of: String,
    pub min_fraction: f64,
}

pub trait Prop: Sync {
    type Case: Clone + std::fmt::Debug + Serialize + DeserializeOwned + Send + 'static;
    fn id(&self) -> &'static str;
    /// random parts; called once per thread
    fn parts(&self, tier: Tier) -> Vec<Part<Self::Case>>;
    /// bounded-exhaustive parts: (name, scope description, iterator)
    fn enumerations(&self, _tier: Tier) -> Vec<(String, String, Box<dyn Iterator<Item = Self::Case> + Send>)> {
        vec![]
    }
    fn check(&self, case: &Self::Case, ctx: &mut Ctx) -> Verdict;
    /// human-readable rendering of a case for samples and replay files
    fn describe(&self, case: &Self::Case) -> Value;
    fn rule(&self) -> String;
    fn guards(&self) -> Vec<Guard> {
        vec![]
    }
    fn max_shrink_iters(&self) -> u32 {
        3000
    }
    fn min_nontrivial(&self, tier: Tier) -> u64 {
        tier.pick(200, 2000)
    }
    fn assumptions(&self) -> Vec<String> {
        vec![]
    }
    /// extra deterministic checks run once (name, result)
    fn extra(&self, _ctx: &mut Ctx) -> Vec<(String, Verdict, Option<Self::Case>)> {
        vec![]
    }
}

pub fn verif_dir() -> std::path::PathBuf {
    if let Ok(d) = std::env::var("VERIF_DIR") {
        return d.into();
    }
    // harness/target/release/verif -> /verif
    let exe = std::env::current_exe().unwrap();
    let mut p = exe.as_path();
    for _ in 0..4 {
        p = p.parent().unwrap_or(p);
    }
    p.to_path_buf()
}

fn n_threads() -> usize {
    std::env::var("VERIF_THREADS")
        .ok()
        .and_then(|s| s.parse().ok())
        .unwrap_or_else(|| std::thread::available_parallelism().map(|n| n.get()).unwrap_or(8))
        .max(1)
}

struct Violation {
    sub: String,
    case_json: Value,
    describe: Value,
    failure: Failure,
    shrunk: bool,
    replay_path: Option<String>,
}

fn write_replay<P: Prop>(prop: &P, v: &Violation, seed: u64, tier: Tier) -> String {
    let dir = verif_dir().join("replays").join(prop.id());
    let _ = std::fs::create_dir_all(&dir);
    let h = hash_of(&v.case_json.to_string());
    let path = dir.join(format!("{}-{:016x}.json", v.sub.replace(['/', ' '], "_"), h));
    let body = json!({
        "property": prop.id(),
        "sub": v.sub,
        "case": v.case_json,
        "rendered": v.describe,
        "expected": v.failure.expected,
        "actual": v.failure.actual,
        "detail": v.failure.detail,
        "seed": seed,
        "tier": tier.name(),
        "shrunk": v.shrunk,
    });
    std::fs::write(&path, serde_json::to_string_pretty(&body).unwrap()).unwrap();
    path.to_string_lossy().to_string()
}

pub fn run_check<P: Prop>(prop: &P, tier: Tier, seed: u64) -> i32 {
    MAX_HANGS.store(if tier == Tier::Thorough { 600 } else { 40 }, Ordering::Relaxed);
    let t0 = Instant::now();
    let known = Known::load();
    let threads = n_threads();
    let mut total = Obs::default();
    let mut violations: Vec<Violation> = vec![];
    let mut exhaustive_scopes: Vec<String> = vec![];
    let mut max_wall_us = 0u64;
    let mut jobs = 0u64;

    // ---- 1. known-finding witnesses and corpus (regression tier) ----
    {
        let mut w = WorkerHandle::new();
        let mut obs = Obs::default();
        for kf in known.open_for(prop.id()) {
            let case: P::Case = match serde_json::from_value(kf.witness.clone()) {
                Ok(c) => c,
                Err(e) => {
                    eprintln!("harness error: witness of {} does not parse: {e}", kf.id);
                    return 2;
                }
            };
            let mut ctx = Ctx { w: &mut w, obs: &mut obs, known: &known, tier, replay: false };
            match prop.check(&case, &mut ctx) {
                Verdict::Known(id) if id == kf.id => {
                    println!("KNOWN-FINDING: property={} {} {}", prop.id(), kf.id, kf.what);
                }
                Verdict::Known(other) => {
                    println!("KNOWN-FINDING: property={} {} {} (witness of {} attributed to it)", prop.id(), other, kf.what, kf.id);
                }
                Verdict::Pass | Verdict::Skip(_) => {
                    println!("note: known finding {} no longer reproduces on its witness", kf.id);
                }
                Verdict::Fail(f) => {
                    violations.push(Violation {
                        sub: format!("witness-{}", kf.id),
                        case_json: serde_json::to_value(&case).unwrap(),
                        describe: prop.describe(&case),
                        failure: f,
                        shrunk: true,
                        replay_path: None,
                    });
                }
            }
        }
        let cdir = verif_dir().join("corpus").join(prop.id());
        let mut files: Vec<_> = std::fs::read_dir(&cdir)
            .map(|rd| rd.filter_map(|e| e.ok()).map(|e| e.path()).collect())
            .unwrap_or_default();
        if std::env::var("VERIF_NO_CORPUS").is_ok() {
            // sensitivity experiments only: measure what the generators find without the regression corpus
            files.clear();
        }
        files.sort();
        let mut n_corpus = 0;
        for f in files {
            if f.extension().map_or(true, |e| e != "json") {
                continue;
            }
            let text = std::fs::read_to_string(&f).unwrap();
            let v: Value = match serde_json::from_str(&text) {
                Ok(v) => v,
                Err(e) => {
                    eprintln!("harness error: corpus file {f:?}: {e}");
                    return 2;
                }
            };
            let case: P::Case = match serde_json::from_value(v["case"].clone()) {
                Ok(c) => c,
                Err(e) => {
                    eprintln!("harness error: corpus file {f:?}: {e}");
                    return 2;
                }
            };
            n_corpus += 1;
            // corpus cases are witnesses of repaired defects: no known finding may excuse them
            let strict = Known::default();
            let mut ctx = Ctx { w: &mut w, obs: &mut obs, known: &strict, tier, replay: false };
            if let Verdict::Fail(fl) = prop.check(&case, &mut ctx) {
                violations.push(Violation {
                    sub: format!("corpus:{}", f.file_name().unwrap().to_string_lossy()),
                    case_json: serde_json::to_value(&case).unwrap(),
                    describe: prop.describe(&case),
                    failure: fl,
                    shrunk: true,
                    replay_path: Some(f.to_string_lossy().to_string()),
                });
            }
        }
        obs.label(&format!("corpus_cases={n_corpus}"));
        // extra deterministic checks
        let mut ctx = Ctx { w: &mut w, obs: &mut obs, known: &known, tier, replay: false };
        for (name, v, case) in prop.extra(&mut ctx) {
            if let Verdict::Fail(fl) = v {
                violations.push(Violation {
                    sub: name,
                    case_json: case.as_ref().map(|c| serde_json::to_value(c).unwrap()).unwrap_or(Value::Null),
                    describe: case.as_ref().map(|c| prop.describe(c)).unwrap_or(Value::Null),
                    failure: fl,
                    shrunk: true,
                    replay_path: None,
                });
            }
        }
        jobs += w.jobs_run;
        total.merge(obs);
    }

    let stop = AtomicBool::new(!violations.is_empty());

    // ---- 2. bounded-exhaustive enumeration ----
    if !stop.load(Ordering::Relaxed) {
        for (name, scope, iter) in prop.enumerations(tier) {
            let it = Mutex::new(iter);
            let found: Mutex<Vec<Violation>> = Mutex::new(vec![]);
            let merged: Mutex<Vec<(Obs, u64, u64)>> = Mutex::new(vec![]);
            let completed = AtomicBool::new(true);
            std::thread::scope(|sc| {
                for _t in 0..threads {
                    sc.spawn(|| {
                        let mut w = WorkerHandle::new();
                        let mut obs = Obs::default();
                        loop {
                            if stop.load(Ordering::Relaxed) {
                                completed.store(false, Ordering::Relaxed);
                                break;
                            }
                            let batch: Vec<P::Case> = {
                                let mut g = it.lock().unwrap();
                                let mut b = Vec::with_capacity(32);
                                for _ in 0..32 {
                                    match g.next() {
                                        Some(c) => b.push(c),
                                        None => break,
                                    }
                                }
                                b
                            };
                            if batch.is_empty() {
                                break;
                            }
                            for case in batch {
                                obs.cases += 1;
                                let mut ctx = Ctx { w: &mut w, obs: &mut obs, known: &known, tier, replay: false };
                                match prop.check(&case, &mut ctx) {
                                    Verdict::Pass => {}
                                    Verdict::Skip(r) => {
                                        note_skip(r, &stop);
                                        if r == "hang" && std::env::var("VERIF_SHOW_HANGS").is_ok() {
                                            eprintln!("hang: {}", prop.describe(&case));
                                        }
                                        *obs.skipped.entry(r.to_string()).or_insert(0) += 1
                                    }
                                    Verdict::Known(id) => *obs.known_attributed.entry(id).or_insert(0) += 1,
                                    Verdict::Fail(f) => {
                                        stop.store(true, Ordering::Relaxed);
                                        found.lock().unwrap().push(Violation {
                                            sub: name.clone(),
                                            case_json: serde_json::to_value(&case).unwrap(),
                                            describe: prop.describe(&case),
                                            failure: f,
                                            shrunk: false,
                                            replay_path: None,
                                        });
                                        break;
                                    }
                                }
                            }
                        }
                        merged.lock().unwrap().push((obs, w.jobs_run, w.max_job_wall_us));
                    });
                }
            });
            for (o, j, m) in merged.into_inner().unwrap() {
                total.merge(o);
                jobs += j;
                max_wall_us = max_wall_us.max(m);
            }
            let mut f = found.into_inner().unwrap();
            if f.is_empty() && completed.load(Ordering::Relaxed) {
                exhaustive_scopes.push(format!("{name}: {scope}"));
            }
            // smallest first: enumeration order is by size, so prefer the shortest rendering
            f.sort_by_key(|v| v.case_json.to_string().len());
            violations.extend(f.into_iter().take(1));
            if stop.load(Ordering::Relaxed) {
                break;
            }
        }
    }

    // ---- 3. seeded random generation with shrinking ----
    if !stop.load(Ordering::Relaxed) {
        let n_parts = prop.parts(tier).len();
        for pi in 0..n_parts {
            let found: Mutex<Vec<(usize, Violation)>> = Mutex::new(vec![]);
            let merged: Mutex<Vec<(Obs, u64, u64)>> = Mutex::new(vec![]);
            let gen_rejects = AtomicU64::new(0);
            // set once some thread has a confirmed, shrunk violation: the others stop shrinking theirs
            let done = AtomicBool::new(false);
            std::thread::scope(|sc| {
                for t in 0..threads {
                    let found = &found;
                    let merged = &merged;
                    let stop = &stop;
                    let known = &known;
                    let gen_rejects = &gen_rejects;
                    let done = &done;
                    sc.spawn(move || {
                        let part = prop.parts(tier).into_iter().nth(pi).unwrap();
                        let cases = (part.cases as usize).div_ceil(threads) as u32;
                        let mut w = WorkerHandle::new();
                        let mut obs = Obs::default();
                        let tseed = hash_of(&(seed, prop.id(), &part.name, t as u64));
                        let mut runner = TestRunner::new(Config {
                            cases,
                            rng_seed: RngSeed::Fixed(tseed),
                            failure_persistence: None,
                            max_shrink_iters: prop.max_shrink_iters(),
                            // bounds the effort spent on minimising only; the verdict does not depend on it
                            max_shrink_time: 90_000,
                            max_global_rejects: 100_000,
                            ..Config::default()
                        });
                        let failed_once = std::cell::Cell::new(false);
                        let first_failure: std::cell::RefCell<Option<(P::Case, Failure)>> = std::cell::RefCell::new(None);
                        let obs_cell = std::cell::RefCell::new(&mut obs);
                        let w_cell = std::cell::RefCell::new(&mut w);
                        let result = runner.run(&part.strategy, |case| {
                            let mut obs = obs_cell.borrow_mut();
                            let mut w = w_cell.borrow_mut();
                            if done.load(Ordering::Relaxed) {
                                return Ok(());
                            }
                            if !failed_once.get() {
                                if stop.load(Ordering::Relaxed) {
                                    return Ok(());
                                }
                                obs.cases += 1;
                            }
                            let mut ctx = Ctx { w: &mut **w, obs: &mut **obs, known, tier, replay: false };
                            match prop.check(&case, &mut ctx) {
                                Verdict::Pass => Ok(()),
                                Verdict::Skip(r) => {
                                    if !failed_once.get() {
                                        note_skip(r, stop);
                                        if r == "hang" && std::env::var("VERIF_SHOW_HANGS").is_ok() {
                                            eprintln!("hang: {}", prop.describe(&case));
                                        }
                                        *obs.skipped.entry(r.to_string()).or_insert(0) += 1;
                                    }
                                    Ok(())
                                }
                                Verdict::Known(id) => {
                                    if !failed_once.get() {
                                        if std::env::var("VERIF_SHOW_KNOWN").is_ok() {
                                            eprintln!("known {id}: {} :: {}", prop.describe(&case), serde_json::to_string(&case).unwrap());
                                        }
                                        *obs.known_attributed.entry(id).or_insert(0) += 1;
                                    }
                                    Ok(())
                                }
                                Verdict::Fail(f) => {
                                    if !failed_once.get() {
                                        *first_failure.borrow_mut() = Some((case.clone(), f.clone()));
                                    }
                                    failed_once.set(true);
                                    obs.frozen = true;
                                    stop.store(true, Ordering::Relaxed);
                                    Err(TestCaseError::fail(f.sub))
                                }
                            }
                        });
                        drop(obs_cell);
                        drop(w_cell);
                        obs.frozen = false;
                        match result {
                            Ok(()) => {}
                            Err(TestError::Fail(_, _)) if done.load(Ordering::Relaxed) => {}
                            Err(TestError::Fail(_, minimal)) => {
                                let mut scratch = Obs::default();
                                let mut ctx = Ctx { w: &mut w, obs: &mut scratch, known, tier, replay: false };
                                // confirm the shrunk case; if it does not fail when checked in full, report the
                                // case that failed first (checks may use a cheaper test while shrinking)
                                let (case, failure, shrunk) = match prop.check(&minimal, &mut ctx) {
                                    Verdict::Fail(f) => (minimal, f, true),
                                    _ => match first_failure.borrow_mut().take() {
                                        Some((c, f)) => match prop.check(&c, &mut ctx) {
                                            Verdict::Fail(f2) => (c, f2, false),
                                            _ => (c, Failure { detail: format!("{} (did not fail again when re-checked)", f.detail), ..f }, false),
                                        },
                                        None => unreachable!(),
                                    },
                                };
                                found.lock().unwrap().push((
                                    t,
                                    Violation {
                                        sub: part.name.clone(),
                                        case_json: serde_json::to_value(&case).unwrap(),
                                        describe: prop.describe(&case),
                                        failure,
                                        shrunk,
                                        replay_path: None,
                                    },
                                ));
                                done.store(true, Ordering::Relaxed);
                            }
                            Err(TestError::Abort(r)) => {
                                gen_rejects.fetch_add(1, Ordering::Relaxed);
                                eprintln!("harness warning: generator aborted in part {}: {r}", part.name);
                            }
                        }
                        merged.lock().unwrap().push((obs, w.jobs_run, w.max_job_wall_us));
                    });
                }
            });
            for (o, j, m) in merged.into_inner().unwrap() {
                total.merge(o);
                jobs += j;
                max_wall_us = max_wall_us.max(m);
            }
            if gen_rejects.load(Ordering::Relaxed) > 0 {
                eprintln!("harness error: generator rejected too many cases");
                return 2;
            }
            let mut f = found.into_inner().unwrap();
            f.sort_by_key(|(t, v)| (v.case_json.to_string().len(), *t));
            violations.extend(f.into_iter().map(|(_, v)| v).take(1));
            if stop.load(Ordering::Relaxed) {
                break;
            }
        }
    }

    // ---- 4. verdict, evidence ----
    let mut exit = 0;
    for v in violations.iter_mut() {
        let path = match &v.replay_path {
            Some(p) => p.clone(),
            None => write_replay(prop, v, seed, tier),
        };
        println!("VIOLATION property={} replay={}", prop.id(), path);
        println!(
            "  sub={} expected={} actual={} detail={}\n  case={}",
            v.failure.sub, v.failure.expected, v.failure.actual, v.failure.detail, v.describe
        );
        exit = 1;
    }

    let distinct = total.nontrivial.len() as u64;
    // vacuity guards (only meaningful on a complete run)
    let mut guard_failures = vec![];
    if exit == 0 {
        for g in prop.guards() {
            let num = *total.labels.get(&g.label).unwrap_or(&0) as f64;
            let den = if g.of.is_empty() { total.cases as f64 } else { *total.labels.get(&g.of).unwrap_or(&0) as f64 };
            if den == 0.0 || num / den < g.min_fraction {
                guard_failures.push(format!("label '{}' = {} of '{}' = {} is below {:.3}", g.label, num, if g.of.is_empty() { "cases" } else { &g.of }, den, g.min_fraction));
            }
        }
        if distinct < prop.min_nontrivial(tier) {
            guard_failures.push(format!("distinct_nontrivial {} below minimum {}", distinct, prop.min_nontrivial(tier)));
        }
    }

    let spread_samples: Vec<Value> = {
        let n = total.samples.len();
        if n <= 24 {
            total.samples.clone()
        } else {
            (0..24).map(|i| total.samples[i * n / 24].clone()).collect()
        }
    };
    let mut coverage = json!({
        "evaluations": total.evaluations,
        "distinct_nontrivial": distinct,
        "distinct_nontrivial_is_lower_bound": total.nontrivial_overflow > 0,
        "rule": prop.rule(),
        "samples": spread_samples,
        "cases_generated": total.cases,
        "jobs_run": jobs,
        "labels": total.labels,
        "skipped": total.skipped,
        "known_attributed": total.known_attributed,
        "max_job_wall_us": max_wall_us,
        "threads": threads,
    });
    if !exhaustive_scopes.is_empty() {
        coverage["exhaustive_scopes"] = json!(exhaustive_scopes);
        coverage["exhaustive"] = json!(false);
        coverage["exhaustive_note"] = json!("the listed finite scopes were enumerated completely; the random parts are samples");
    }
    if coverage["samples"].as_array().map_or(true, |a| a.is_empty()) {
        coverage["samples"] = json!(["(no sample recorded)"]);
    }
    let ev = json!({
        "property_id": prop.id(),
        "tier": tier.name(),
        "seed": seed,
        "level": "exploration",
        "coverage": coverage,
        "assumptions": prop.assumptions(),
        "wall_s": t0.elapsed().as_secs_f64(),
        "violations": violations.len(),
        "guard_failures": guard_failures,
    });
    let edir = verif_dir().join("evidence");
    let _ = std::fs::create_dir_all(&edir);
    std::fs::write(edir.join(format!("{}.json", prop.id())), serde_json::to_string_pretty(&ev).unwrap()).unwrap();

    if exit == 0 && HANGS.load(Ordering::Relaxed) > MAX_HANGS.load(Ordering::Relaxed) {
        eprintln!("harness: inconclusive: more than {} engine calls hung; this check does not judge hangs (C06 does)", MAX_HANGS.load(Ordering::Relaxed));
        return 2;
    }
    if exit == 0 && !guard_failures.is_empty() {
        for g in &guard_failures {
            eprintln!("harness error: vacuity guard: {g}");
        }
        return 2;
    }
    if exit == 0 {
        println!(
            "OK property={} tier={} seed={} cases={} evaluations={} distinct_nontrivial={} wall={:.1}s",
            prop.id(),
            tier.name(),
            seed,
            total.cases,
            total.evaluations,
            distinct,
            t0.elapsed().as_secs_f64()
        );
    }
    exit
}

pub fn run_replay<P: Prop>(prop: &P, file: &str) -> i32 {
    let text = match std::fs::read_to_string(file) {
        Ok(t) => t,
        Err(e) => {
            eprintln!("harness error: {file}: {e}");
            return 2;
        }
    };
    let v: Value = serde_json::from_str(&text).unwrap();
    let case: P::Case = match serde_json::from_value(v["case"].clone()) {
        Ok(c) => c,
        Err(e) => {
            eprintln!("harness error: {file}: {e}");
            return 2;
        }
    };
    let known = Known::load();
    let mut w = WorkerHandle::new();
    let mut obs = Obs::default();
    let mut ctx = Ctx { w: &mut w, obs: &mut obs, known: &known, tier: Tier::Quick, replay: true };
    match prop.check(&case, &mut ctx) {
        Verdict::Fail(f) => {
            println!("VIOLATION property={} replay={}", prop.id(), file);
            println!("  sub={} expected={} actual={} detail={}\n  case={}", f.sub, f.expected, f.actual, f.detail, prop.describe(&case));
            1
        }
        Verdict::Known(id) => {
            println!("KNOWN-FINDING: property={} {} (replayed case is attributed to it)", prop.id(), id);
            0
        }
        other => {
            println!("no longer reproduces: {other:?} case={}", prop.describe(&case));
            0
        }
    }
}

/// helper for strategies
pub fn boxed<S: Strategy + 'static>(s: S) -> BoxedStrategy<S::Value> {
    s.boxed()
}
