//! Thorough tier of C05 / C06: a libFuzzer campaign over the `api` target (fuzz/fuzz_targets/api.rs).
//! libFuzzer only finds candidates; every artifact is decoded and re-judged by the normal check through a worker.
use crate::driver::verif_dir;
use crate::fuzz_decode;
use crate::props::common::StrCase;
use crate::proto::Dialect;
use std::path::PathBuf;
use std::process::{Command, Stdio};

pub struct Campaign {
    /// names the work directory (harness/target/fuzzwork-<name>)
    pub name: &'static str,
    /// the fuzz target (fuzz/fuzz_targets/<target>.rs)
    pub target: &'static str,
    /// build the target (and regexml) with `--cfg regexml_verif`
    pub hooks: bool,
    pub runs_per_job: u64,
    pub jobs: u32,
    pub timeout_s: u32,
    pub seed: u64,
}

pub struct Found {
    pub kind: String,
    pub case: StrCase,
}

fn to_case(bytes: &[u8], tag: &str) -> Option<StrCase> {
    let t = fuzz_decode::decode(bytes)?;
    Some(StrCase {
        dialect: if t.xsd { Dialect::Xsd } else { Dialect::XPath },
        pattern: t.pattern,
        flags: t.flags,
        inputs: vec![t.input],
        replacements: vec![t.replacement],
        tag: tag.to_string(),
    })
}

/// patterns of the repository's own tests, as corpus seeds
fn repo_test_patterns(limit: usize) -> Vec<String> {
    let mut out = vec![];
    if let Ok(rd) = std::fs::read_dir("/repo/regexml/tests") {
        let mut files: Vec<_> = rd.filter_map(|e| e.ok()).map(|e| e.path()).collect();
        files.sort();
        for f in files {
            if let Ok(text) = std::fs::read_to_string(&f) {
                for part in text.split("Regex::xpath(r#\"").skip(1) {
                    if let Some(end) = part.find("\"#") {
                        let p = &part[..end];
                        if p.chars().count() <= 30 {
                            out.push(p.to_string());
                        }
                    }
                    if out.len() >= limit {
                        return out;
                    }
                }
            }
        }
    }
    out
}

/// returns (artifacts found, total executions requested) or Err(message) for infrastructure trouble
pub fn run(c: &Campaign, seeds: &[StrCase]) -> Result<(Vec<Found>, u64), String> {
    let mut files: Vec<Vec<u8>> = seeds
        .iter()
        .map(|s| fuzz_decode::encode(s.dialect == Dialect::Xsd, &s.pattern, &s.flags, s.inputs.first().map(|x| x.as_str()).unwrap_or(""), s.replacements.first().map(|x| x.as_str()).unwrap_or("")))
        .collect();
    for p in repo_test_patterns(400) {
        files.push(fuzz_decode::encode(false, &p, "", "abc", "$1"));
    }
    let (raw, execs) = run_raw(c, &files, 96)?;
    Ok((raw.into_iter().filter_map(|(kind, bytes)| to_case(&bytes, &format!("libfuzzer-{kind}")).map(|case| Found { kind, case })).collect(), execs))
}

/// the campaign itself: artifacts as (kind, bytes)
pub fn run_raw(c: &Campaign, seed_files: &[Vec<u8>], max_len: u32) -> Result<(Vec<(String, Vec<u8>)>, u64), String> {
    let hdir = verif_dir().join("harness");
    let fdir = verif_dir().join("fuzz");
    let build = Command::new("cargo")
        .args(["+nightly", "fuzz", "build", "--fuzz-dir"])
        .arg(&fdir)
        .arg(c.target)
        .current_dir(&hdir)
        .env("CARGO_NET_OFFLINE", "true")
        .env("RUSTFLAGS", if c.hooks { "--cfg regexml_verif" } else { "" })
        .output()
        .map_err(|e| format!("cannot run cargo fuzz: {e}"))?;
    if !build.status.success() {
        return Err(format!("cargo fuzz build failed: {}", String::from_utf8_lossy(&build.stderr).lines().rev().take(8).collect::<Vec<_>>().join(" | ")));
    }
    let bin = fdir.join("target/x86_64-unknown-linux-gnu/release").join(c.target);
    if !bin.exists() {
        return Err(format!("fuzz binary not found at {bin:?}"));
    }
    let work: PathBuf = hdir.join("target").join(format!("fuzzwork-{}", c.name));
    let _ = std::fs::remove_dir_all(&work);
    let mut children = vec![];
    for j in 0..c.jobs {
        let corpus = work.join(format!("corpus{j}"));
        let arts = work.join(format!("artifacts{j}"));
        std::fs::create_dir_all(&corpus).map_err(|e| e.to_string())?;
        std::fs::create_dir_all(&arts).map_err(|e| e.to_string())?;
        for (k, bytes) in seed_files.iter().enumerate() {
            let _ = std::fs::write(corpus.join(format!("seed{k}")), bytes);
        }
        children.push((corpus, arts, j));
    }
    // Each job runs its executions in slices over one growing corpus directory: libFuzzer stops at the first artifact
    // (a timeout on an exponential pattern is common), and a stopped slice must not cost the job its remaining runs.
    const SLICES: u64 = 6;
    let mut found = vec![];
    let results: Vec<Result<(), String>> = std::thread::scope(|sc| {
        let hs: Vec<_> = children
            .iter()
            .map(|(corpus, arts, j)| {
                let bin = &bin;
                sc.spawn(move || {
                    for slice in 0..SLICES {
                        let status = Command::new(bin)
                            .arg(corpus)
                            .arg(format!("-runs={}", c.runs_per_job / SLICES))
                            .arg(format!("-seed={}", (c.seed.wrapping_mul(1000).wrapping_add(*j as u64 * 10 + slice + 1)) % 4_000_000_000))
                            .arg(format!("-max_len={max_len}"))
                            .arg("-len_control=0")
                            .arg(format!("-timeout={}", c.timeout_s))
                            .arg("-rss_limit_mb=4096")
                            .arg(format!("-artifact_prefix={}/", arts.display()))
                            .stdout(Stdio::null())
                            .stderr(Stdio::null())
                            .status();
                        if let Err(e) = status {
                            return Err(format!("cannot start the fuzz binary: {e}"));
                        }
                    }
                    Ok(())
                })
            })
            .collect();
        hs.into_iter().map(|h| h.join().unwrap_or_else(|_| Err("fuzz job thread panicked".into()))).collect()
    });
    for r in results {
        r?;
    }
    for (_, arts, _) in &children {
        if let Ok(rd) = std::fs::read_dir(arts) {
            for e in rd.filter_map(|e| e.ok()) {
                let name = e.file_name().to_string_lossy().to_string();
                let kind = name.split('-').next().unwrap_or("").to_string();
                if let Ok(bytes) = std::fs::read(e.path()) {
                    found.push((kind, bytes));
                }
            }
        }
    }
    Ok((found, c.runs_per_job * c.jobs as u64))
}
