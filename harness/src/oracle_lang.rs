//! R1: denotational "all match paths" language model (order-independent by construction).
use crate::ast::*;
use crate::ucd;
use std::cell::Cell;
use std::collections::BTreeSet;

#[derive(Clone, Copy, Debug, PartialEq, Eq, Hash, Default, serde::Serialize, serde::Deserialize)]
pub struct Flags {
    pub i: bool,
    pub m: bool,
    pub s: bool,
}

impl Flags {
    pub fn from_str(f: &str) -> Flags {
        Flags {
            i: f.contains('i'),
            m: f.contains('m'),
            s: f.contains('s'),
        }
    }
    pub fn to_string(&self) -> String {
        let mut s = String::new();
        if self.i {
            s.push('i')
        }
        if self.m {
            s.push('m')
        }
        if self.s {
            s.push('s')
        }
        s
    }
}

pub type Env = Vec<Option<(u16, u16)>>;
pub type State = (usize, Env);

pub struct Lang<'a> {
    pub s: &'a [char],
    pub f: Flags,
    tracked: Vec<bool>,
    /// captures of a loop body are reset at the start of each iteration
    pub reset_in_loops: bool,
    steps: Cell<u64>,
    pub budget: u64,
    overflow: Cell<bool>,
}

fn groups_in(n: &Node, out: &mut Vec<u32>) {
    if let Node::Group(k, _) = n {
        if *k != 0 {
            out.push(*k);
        }
    }
    for c in n.children() {
        groups_in(c, out);
    }
}

impl<'a> Lang<'a> {
    pub fn new(root: &Node, s: &'a [char], f: Flags) -> Lang<'a> {
        assert!(s.len() < 65_536, "capture positions are stored as u16");
        let ng = root.n_groups() as usize;
        let refs = root.backrefs();
        let mut tracked = vec![false; ng + 1];
        for r in &refs {
            if (*r as usize) < tracked.len() {
                tracked[*r as usize] = true;
            }
        }
        if refs.is_empty() {
            tracked.clear();
        }
        Lang {
            s,
            f,
            tracked,
            reset_in_loops: false,
            steps: Cell::new(0),
            budget: 2_000_000,
            overflow: Cell::new(false),
        }
    }
    pub fn overflowed(&self) -> bool {
        self.overflow.get()
    }
    fn env0(&self) -> Env {
        vec![None; self.tracked.len()]
    }
    fn tick(&self) -> bool {
        let s = self.steps.get() + 1;
        self.steps.set(s);
        if s > self.budget {
            self.overflow.set(true);
            return false;
        }
        true
    }

    fn bol(&self, p: usize) -> bool {
        p == 0 || (self.f.m && self.s[p - 1] == '\n' && p < self.s.len())
    }
    fn eol(&self, p: usize) -> bool {
        p == self.s.len() || (self.f.m && self.s[p] == '\n')
    }

    pub fn char_matches(&self, n: &Node, c: char) -> bool {
        match n {
            Node::Lit(l) => ucd::cmp_char(*l, c, self.f.i),
            Node::Dot => self.f.s || !(c == '\n' || c == '\r'),
            Node::Class(ce) => ucd::class_contains(ce, c, self.f.i),
            Node::Esc(e) => ucd::esc_contains(e, c),
            _ => false,
        }
    }

    fn step_set(&self, body: &Node, from: &BTreeSet<State>, body_groups: &[u32]) -> BTreeSet<State> {
        let mut next = BTreeSet::new();
        for (q, e) in from {
            let e2;
            let er = if self.reset_in_loops && !self.tracked.is_empty() {
                let mut t = e.clone();
                for g in body_groups {
                    if (*g as usize) < t.len() {
                        t[*g as usize] = None;
                    }
                }
                e2 = t;
                &e2
            } else {
                e
            };
            for st in self.ends(body, *q, er) {
                next.insert(st);
            }
            if self.overflow.get() {
                break;
            }
        }
        next
    }

    pub fn ends(&self, n: &Node, p: usize, e: &Env) -> Vec<State> {
        if !self.tick() {
            return vec![];
        }
        match n {
            Node::Empty => vec![(p, e.clone())],
            Node::Lit(_) | Node::Dot | Node::Class(_) | Node::Esc(_) => {
                if p < self.s.len() && self.char_matches(n, self.s[p]) {
                    vec![(p + 1, e.clone())]
                } else {
                    vec![]
                }
            }
            Node::Bol => {
                if self.bol(p) {
                    vec![(p, e.clone())]
                } else {
                    vec![]
                }
            }
            Node::Eol => {
                if self.eol(p) {
                    vec![(p, e.clone())]
                } else {
                    vec![]
                }
            }
            Node::Group(k, b) => {
                let mut r = self.ends(b, p, e);
                let k = *k as usize;
                if k != 0 && k < self.tracked.len() && self.tracked[k] {
                    for (q, env) in r.iter_mut() {
                        env[k] = Some((p as u16, *q as u16));
                    }
                    r.sort();
                    r.dedup();
                }
                r
            }
            Node::Alt(v) => {
                let mut r = vec![];
                for c in v {
                    r.extend(self.ends(c, p, e));
                }
                r.sort();
                r.dedup();
                r
            }
            Node::Cat(v) => {
                let mut cur: Vec<State> = vec![(p, e.clone())];
                for c in v {
                    let mut next = vec![];
                    for (q, env) in &cur {
                        next.extend(self.ends(c, *q, env));
                    }
                    next.sort();
                    next.dedup();
                    cur = next;
                    if cur.is_empty() {
                        break;
                    }
                }
                cur
            }
            Node::Rep { body, min, max, .. } => {
                let mut bg = vec![];
                groups_in(body, &mut bg);
                let mut cur: BTreeSet<State> = BTreeSet::new();
                cur.insert((p, e.clone()));
                // exactly `min` iterations; once the set stops changing further iterations change nothing
                let mut j = 0u32;
                while j < *min {
                    let next = self.step_set(body, &cur, &bg);
                    j += 1;
                    if next == cur {
                        break;
                    }
                    cur = next;
                    if cur.is_empty() || self.overflow.get() {
                        return vec![];
                    }
                }
                // then up to max-min more: breadth-first closure
                let mut all = cur.clone();
                let mut frontier = cur;
                let mut extra: u64 = match max {
                    Some(m) => (*m as u64).saturating_sub(*min as u64),
                    None => u64::MAX,
                };
                while extra > 0 && !frontier.is_empty() {
                    let next = self.step_set(body, &frontier, &bg);
                    let new: BTreeSet<State> = next.difference(&all).cloned().collect();
                    if new.is_empty() {
                        break;
                    }
                    all.extend(new.iter().cloned());
                    frontier = new;
                    extra -= 1;
                    if self.overflow.get() {
                        return vec![];
                    }
                }
                all.into_iter().collect()
            }
            Node::BackRef(k) => {
                let k = *k as usize;
                match e.get(k).copied().flatten() {
                    None => vec![(p, e.clone())],
                    Some((a, b)) => {
                        let (a, b) = (a as usize, b as usize);
                        let l = b - a;
                        if p + l > self.s.len() {
                            return vec![];
                        }
                        for i in 0..l {
                            if !ucd::cmp_char(self.s[a + i], self.s[p + i], self.f.i) {
                                return vec![];
                            }
                        }
                        vec![(p + l, e.clone())]
                    }
                }
            }
        }
    }

    /// set of end positions of matches of root starting at p
    pub fn ends_from(&self, root: &Node, p: usize) -> Vec<usize> {
        let mut v: Vec<usize> = self.ends(root, p, &self.env0()).into_iter().map(|x| x.0).collect();
        v.sort();
        v.dedup();
        v
    }
    pub fn is_match(&self, root: &Node) -> bool {
        (0..=self.s.len()).any(|p| !self.ends_from(root, p).is_empty())
    }
}

/// Note on the "exactly min iterations" loop above: if S_{j+1} == S_j then S_k == S_j for all k >= j,
/// so stopping early is exact.

#[derive(Clone, Copy, Debug, PartialEq, Eq)]
pub enum Tri {
    True,
    False,
    /// the two capture readings (keep / reset across iterations) disagree
    Either,
    /// step budget exceeded
    Unknown,
}

/// does a back-referenced group lie inside a quantifier with max > 1?
pub fn backref_into_loop(root: &Node) -> bool {
    let inl = root.groups_in_loops();
    root.backrefs().iter().any(|r| inl.contains(r))
}

pub fn is_match(root: &Node, s: &[char], f: Flags) -> Tri {
    let l = Lang::new(root, s, f);
    let a = l.is_match(root);
    if l.overflowed() {
        return Tri::Unknown;
    }
    if backref_into_loop(root) {
        let mut l2 = Lang::new(root, s, f);
        l2.reset_in_loops = true;
        let b = l2.is_match(root);
        if l2.overflowed() {
            return Tri::Unknown;
        }
        if a != b {
            return Tri::Either;
        }
    }
    if a {
        Tri::True
    } else {
        Tri::False
    }
}

/// The match relation restricted to what both capture readings agree on is not needed by callers;
/// they use `spans_from` with the "keep" reading and skip cases where `backref_into_loop`.
pub fn ends_from(root: &Node, s: &[char], f: Flags, p: usize) -> Option<Vec<usize>> {
    let l = Lang::new(root, s, f);
    let v = l.ends_from(root, p);
    if l.overflowed() {
        None
    } else {
        Some(v)
    }
}

pub fn matches_empty(root: &Node, f: Flags) -> Tri {
    is_match(root, &[], f)
}
