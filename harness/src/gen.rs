//! proptest strategies for pattern ASTs, class expressions, inputs and flags.
use crate::ast::*;
use crate::oracle_lang::Flags;
use crate::ucd;
use proptest::prelude::*;
use proptest::strategy::BoxedStrategy;

#[derive(Clone, Debug)]
pub struct ClassCfg {
    pub chars: Vec<char>,
    pub escapes: bool,
    pub neg: bool,
    pub sub_depth: u32,
    pub range_pool: Vec<(char, char)>,
}

#[derive(Clone, Debug)]
pub struct GenCfg {
    pub lits: Vec<char>,
    pub w_lit: u32,
    pub w_dot: u32,
    pub w_class: u32,
    pub w_esc: u32,
    pub w_anchor: u32,
    pub w_backref: u32,
    pub w_empty: u32,
    pub reluctant: bool,
    pub noncap: bool,
    pub cap: bool,
    pub depth: u32,
    pub size: u32,
    pub counted_max: u32,
    pub class: ClassCfg,
}

impl GenCfg {
    pub fn basic(lits: &[char]) -> GenCfg {
        GenCfg {
            lits: lits.to_vec(),
            w_lit: 10,
            w_dot: 2,
            w_class: 3,
            w_esc: 1,
            w_anchor: 2,
            w_backref: 2,
            w_empty: 1,
            reluctant: true,
            noncap: true,
            cap: true,
            depth: 4,
            size: 14,
            counted_max: 3,
            class: ClassCfg {
                chars: lits.to_vec(),
                escapes: true,
                neg: true,
                sub_depth: 1,
                range_pool: vec![('a', 'c'), ('b', 'd'), ('a', 'b'), ('0', '9'), ('A', 'C')],
            },
        }
    }
}

pub fn esc_strategy() -> BoxedStrategy<Esc> {
    let kinds = prop_oneof![
        3 => Just(EscKind::Digit),
        3 => Just(EscKind::Word),
        3 => Just(EscKind::Space),
        1 => Just(EscKind::NameStart),
        1 => Just(EscKind::NameChar),
        2 => prop::sample::select(vec!["Lu", "Ll", "L", "Nd", "N", "P", "Zs", "S"]).prop_map(|s| EscKind::Cat(s.to_string())),
        1 => prop::sample::select(vec!["BasicLatin", "Latin-1Supplement", "Greek", "Cyrillic"]).prop_map(|s| EscKind::Block(s.to_string())),
    ];
    (kinds, any::<bool>()).prop_map(|(kind, neg)| Esc { kind, neg }).boxed()
}

pub fn class_strategy(cfg: &ClassCfg) -> BoxedStrategy<ClassExpr> {
    fn level(cfg: ClassCfg, depth: u32) -> BoxedStrategy<ClassExpr> {
        let ch = prop::sample::select(cfg.chars.clone()).prop_map(Item::Char);
        let rg = prop::sample::select(cfg.range_pool.clone()).prop_map(|(a, b)| Item::Range(a, b));
        let item: BoxedStrategy<Item> = if cfg.escapes {
            prop_oneof![5 => ch, 3 => rg, 2 => esc_strategy().prop_map(Item::Esc)].boxed()
        } else {
            prop_oneof![5 => ch, 3 => rg].boxed()
        };
        let items = prop::collection::vec(item, 1..4);
        let neg = if cfg.neg { any::<bool>().boxed() } else { Just(false).boxed() };
        if depth == 0 {
            (neg, items).prop_map(|(neg, items)| ClassExpr { neg, items, sub: None }).boxed()
        } else {
            let sub = prop::option::weighted(0.35, level(cfg.clone(), depth - 1));
            (neg, items, sub)
                .prop_map(|(neg, items, sub)| ClassExpr { neg, items, sub: sub.map(Box::new) })
                .boxed()
        }
    }
    level(cfg.clone(), cfg.sub_depth)
}

pub fn quant_strategy(reluctant: bool, counted_max: u32) -> BoxedStrategy<(u32, Option<u32>, bool, bool)> {
    let cm = counted_max.max(1);
    let bounds = prop_oneof![
        3 => Just((0u32, Some(1u32), false)),
        3 => Just((0, None, false)),
        3 => Just((1, None, false)),
        2 => (0..=cm).prop_map(|n| (n, Some(n), true)),
        2 => (0..=cm.min(2)).prop_map(|n| (n, None, true)),
        3 => (0..=cm, 0..=cm).prop_map(|(a, b)| (a.min(b), Some(a.max(b)), true)),
    ];
    let greedy = if reluctant { prop::bool::weighted(0.7).boxed() } else { Just(true).boxed() };
    (bounds, greedy).prop_map(|((min, max, brace), g)| (min, max, g, brace)).boxed()
}

/// top-level pattern strategy: mostly a sequence of 2-4 recursive nodes, so that trivial one-leaf patterns are rare
pub fn node_strategy(cfg: &GenCfg) -> BoxedStrategy<Node> {
    let inner = inner_node_strategy(cfg);
    prop_oneof![
        2 => inner.clone(),
        5 => prop::collection::vec(inner.clone(), 2..5).prop_map(Node::Cat),
        1 => prop::collection::vec(inner, 2..4).prop_map(Node::Alt),
    ]
    .boxed()
}

pub fn inner_node_strategy(cfg: &GenCfg) -> BoxedStrategy<Node> {
    let mut leaves: Vec<(u32, BoxedStrategy<Node>)> = vec![];
    leaves.push((cfg.w_lit.max(1), prop::sample::select(cfg.lits.clone()).prop_map(Node::Lit).boxed()));
    if cfg.w_dot > 0 {
        leaves.push((cfg.w_dot, Just(Node::Dot).boxed()));
    }
    if cfg.w_class > 0 {
        leaves.push((cfg.w_class, class_strategy(&cfg.class).prop_map(Node::Class).boxed()));
    }
    if cfg.w_esc > 0 {
        leaves.push((cfg.w_esc, esc_strategy().prop_map(Node::Esc).boxed()));
    }
    if cfg.w_anchor > 0 {
        leaves.push((cfg.w_anchor, prop_oneof![Just(Node::Bol), Just(Node::Eol)].boxed()));
    }
    if cfg.w_backref > 0 {
        leaves.push((cfg.w_backref, (0u32..65536).prop_map(Node::BackRef).boxed()));
    }
    if cfg.w_empty > 0 {
        leaves.push((cfg.w_empty, Just(Node::Empty).boxed()));
    }
    let leaf = proptest::strategy::Union::new_weighted(leaves).boxed();
    let reluctant = cfg.reluctant;
    let counted_max = cfg.counted_max;
    let (cap, noncap) = (cfg.cap, cfg.noncap);
    leaf.prop_recursive(cfg.depth, cfg.size, 4, move |inner| {
        let mut opts: Vec<(u32, BoxedStrategy<Node>)> = vec![];
        if cap {
            opts.push((3, inner.clone().prop_map(Node::cap).boxed()));
        }
        if noncap {
            opts.push((1, inner.clone().prop_map(Node::ncap).boxed()));
        }
        opts.push((3, prop::collection::vec(inner.clone(), 2..4).prop_map(Node::Alt).boxed()));
        opts.push((6, prop::collection::vec(inner.clone(), 2..5).prop_map(Node::Cat).boxed()));
        opts.push((
            6,
            (inner, quant_strategy(reluctant, counted_max))
                .prop_map(|(b, (min, max, greedy, brace))| Node::Rep { body: Box::new(b), min, max, greedy, brace })
                .boxed(),
        ));
        proptest::strategy::Union::new_weighted(opts)
    })
    .boxed()
}

/// flag subsets over the given letters (bit i of the generated number selects letter i)
pub fn flags_strategy(letters: &'static str) -> BoxedStrategy<String> {
    let n = letters.chars().count() as u32;
    (0u32..(1 << n))
        .prop_map(move |bits| letters.chars().enumerate().filter(|(i, _)| bits & (1 << i) != 0).map(|(_, c)| c).collect())
        .boxed()
}

/// raw inputs: index vectors, mapped onto the pattern's alphabet by `materialize_input`
pub fn raw_inputs(n: usize, max_len: usize) -> BoxedStrategy<Vec<Vec<u16>>> {
    prop::collection::vec(prop::collection::vec(any::<u16>(), 0..=max_len), n..=n).boxed()
}

pub fn materialize_input(raw: &[u16], alphabet: &[char]) -> String {
    raw.iter().map(|i| alphabet[((*i as usize) * alphabet.len()) >> 16]).collect()
}

/// the input alphabet for a pattern: its own letters (twice, to bias towards matches), case counterparts when
/// `i` is involved, line terminators when anchors / dot / m / s are involved, and outsiders
pub fn input_alphabet(node: &Node, f: Flags, extra: &[char]) -> Vec<char> {
    let mut a = node.alphabet();
    a.retain(|c| *c != '\u{0}');
    let own = a.clone();
    a.extend(own.iter().cloned());
    // case counterparts: always present (without flag i they must not match), more of them under i
    for c in &own {
        if let Some(d) = ucd::counterpart(*c) {
            a.push(d);
            if f.i {
                a.push(d);
            }
        }
    }
    let has_dot = node.any(&|n| matches!(n, Node::Dot));
    if node.has_anchor() || has_dot || f.m || f.s {
        a.push('\n');
        if has_dot || f.s {
            a.push('\r');
        }
    }
    if node.any(&|n| matches!(n, Node::Esc(_)) || matches!(n, Node::Class(c) if c.items.iter().any(|i| matches!(i, Item::Esc(_))))) {
        a.extend(['7', ' ', 'Q', '-']);
    }
    a.extend(extra.iter().cloned());
    if a.is_empty() {
        a.push('a');
    }
    a.push('z');
    a
}

/// Build an input that is likely to contain matches: strings sampled from the pattern's own language (choices taken
/// from the raw index vector), glued together with a little random filler. Anchors are ignored and classes are sampled
/// from a small candidate list, so the result is a good guess, not a guaranteed match.
pub fn sample_input(node: &Node, f: Flags, raw: &[u16], alphabet: &[char]) -> String {
    struct S<'a> {
        raw: &'a [u16],
        k: usize,
        caps: Vec<Option<String>>,
        i: bool,
        budget: usize,
    }
    impl<'a> S<'a> {
        fn pick(&mut self, n: usize) -> usize {
            let v = if self.raw.is_empty() { 0 } else { self.raw[self.k % self.raw.len()] as usize };
            self.k += 1;
            if n == 0 {
                0
            } else {
                (v.wrapping_mul(31).wrapping_add(self.k * 7)) % n
            }
        }
        fn class_member(&mut self, ce: &ClassExpr, extra: &[char]) -> Option<char> {
            let mut cands: Vec<char> = vec![];
            fn ends(ce: &ClassExpr, v: &mut Vec<char>) {
                for it in &ce.items {
                    match it {
                        Item::Char(c) => v.push(*c),
                        Item::Range(a, b) => {
                            v.push(*a);
                            v.push(*b);
                            if let Some(m) = char::from_u32((*a as u32 + *b as u32) / 2) {
                                v.push(m);
                            }
                        }
                        Item::Esc(_) => {}
                    }
                }
                if let Some(s) = &ce.sub {
                    ends(s, v);
                }
            }
            ends(ce, &mut cands);
            cands.extend(extra.iter().cloned());
            cands.extend(['a', 'b', '1', ' ', 'A', 'z', 'é', '-', '\n', 'x', '7', 'Q']);
            let n = cands.len();
            let start = self.pick(n);
            (0..n).map(|d| cands[(start + d) % n]).find(|c| ucd::class_contains(ce, *c, self.i))
        }
        fn go(&mut self, n: &Node, out: &mut String, alphabet: &[char]) {
            if self.budget == 0 {
                return;
            }
            self.budget -= 1;
            match n {
                Node::Empty | Node::Bol | Node::Eol => {}
                Node::Lit(c) => {
                    let c = if self.i && self.pick(3) == 0 { ucd::counterpart(*c).unwrap_or(*c) } else { *c };
                    out.push(c)
                }
                Node::Dot => out.push(alphabet[self.pick(alphabet.len())]),
                Node::Class(ce) => {
                    if let Some(c) = self.class_member(ce, alphabet) {
                        out.push(c)
                    }
                }
                Node::Esc(e) => {
                    let cands = ['a', '1', ' ', 'A', 'é', '-', '\n', 'z', '7', '_', ':'];
                    let st = self.pick(cands.len());
                    if let Some(c) = (0..cands.len()).map(|d| cands[(st + d) % cands.len()]).find(|c| ucd::esc_contains(e, *c)) {
                        out.push(c)
                    }
                }
                Node::Group(k, b) => {
                    let mut t = String::new();
                    self.go(b, &mut t, alphabet);
                    if *k != 0 && *k != CAP {
                        let k = *k as usize;
                        if self.caps.len() <= k {
                            self.caps.resize(k + 1, None);
                        }
                        self.caps[k] = Some(t.clone());
                    }
                    out.push_str(&t);
                }
                Node::Alt(v) => {
                    let b = self.pick(v.len());
                    self.go(&v[b], out, alphabet)
                }
                Node::Cat(v) => {
                    for c in v {
                        self.go(c, out, alphabet)
                    }
                }
                Node::Rep { body, min, max, .. } => {
                    let hi = max.map_or(*min + 2, |m| m.min(*min + 2));
                    let cnt = *min + self.pick((hi - *min + 1) as usize) as u32;
                    for _ in 0..cnt.min(4) {
                        self.go(body, out, alphabet)
                    }
                }
                Node::BackRef(k) => {
                    if let Some(Some(t)) = self.caps.get(*k as usize) {
                        let t = t.clone();
                        out.push_str(&t)
                    }
                }
            }
        }
    }
    let mut s = S { raw, k: 0, caps: vec![], i: f.i, budget: 60 };
    let mut out = String::new();
    let pieces = 1 + s.pick(2);
    for _ in 0..pieces {
        let junk = s.pick(3);
        for _ in 0..junk {
            out.push(alphabet[s.pick(alphabet.len())]);
        }
        s.go(node, &mut out, alphabet);
    }
    if s.pick(2) == 0 {
        out.push(alphabet[s.pick(alphabet.len())]);
    }
    out
}
