//! proptest strategies for pattern ASTs, class expressions, inputs and flags.
use crate::ast::*;
use crate::oracle_lang::Flags;
use crate::ucd;
use proptest::prelude::*;
use proptest::strategy::BoxedStrategy;

#[derive(Clone, Debug)]
pub struct ClassCfg {
    pub chars: Vec<char>,
    pub escapes: bool,
    pub neg: bool,
    pub sub_depth: u32,
    pub range_pool: Vec<(char, char)>,
}

#[derive(Clone, Debug)]
pub struct GenCfg {
    pub lits: Vec<char>,
    pub w_lit: u32,
    pub w_dot: u32,
    pub w_class: u32,
    pub w_esc: u32,
    pub w_anchor: u32,
    pub w_backref: u32,
    pub w_empty: u32,
    pub reluctant: bool,
    pub noncap: bool,
    pub cap: bool,
    pub depth: u32,
    pub size: u32,
    pub counted_max: u32,
    pub class: ClassCfg,
}

impl GenCfg {
    pub fn basic(lits: &[char]) -> GenCfg {
        GenCfg {
            lits: lits.to_vec(),
            w_lit: 10,
            w_dot: 2,
            w_class: 3,
            w_esc: 1,
            w_anchor: 2,
            w_backref: 2,
            w_empty: 1,
            reluctant: true,
            noncap: true,
            cap: true,
            depth: 4,
            size: 14,
            counted_max: 3,
            class: ClassCfg {
                chars: lits.to_vec(),
                escapes: true,
                neg: true,
                sub_depth: 1,
                range_pool: vec![('a', 'c'), ('b', 'd'), ('a', 'b'), ('0', '9'), ('A', 'C')],
            },
        }
    }
}

pub fn esc_strategy() -> BoxedStrategy<Esc> {
    let kinds = prop_oneof![
        3 => Just(EscKind::Digit),
        3 => Just(EscKind::Word),
        3 => Just(EscKind::Space),
        1 => Just(EscKind::NameStart),
        1 => Just(EscKind::NameChar),
        2 => prop::sample::select(vec!["Lu", "Ll", "L", "Nd", "N", "P", "Zs", "S"]).prop_map(|s| EscKind::Cat(s.to_string())),
        1 => prop::sample::select(vec!["BasicLatin", "Latin-1Supplement", "Greek", "Cyrillic"]).prop_map(|s| EscKind::Block(s.to_string())),
    ];
    (kinds, any::<bool>()).prop_map(|(kind, neg)| Esc { kind, neg }).boxed()
}

pub fn class_strategy(cfg: &ClassCfg) -> BoxedStrategy<ClassExpr> {
    fn level(cfg: ClassCfg, depth: u32) -> BoxedStrategy<ClassExpr> {
        let ch = prop::sample::select(cfg.chars.clone()).prop_map(Item::Char);
        let rg = prop::sample::select(cfg.range_pool.clone()).prop_map(|(a, b)| Item::Range(a, b));
        let item: BoxedStrategy<Item> = if cfg.escapes {
            prop_oneof![5 => ch, 3 => rg, 2 => esc_strategy().prop_map(Item::Esc)].boxed()
        } else {
            prop_oneof![5 => ch, 3 => rg].boxed()
        };
        let items = prop::collection::vec(item, 1..4);
        let neg = if cfg.neg { any::<bool>().boxed() } else { Just(false).boxed() };
        if depth == 0 {
            (neg, items).prop_map(|(neg, items)| ClassExpr { neg, items, sub: None }).boxed()
        } else {
            let sub = prop::option::weighted(0.35, level(cfg.clone(), depth - 1));
            (neg, items, sub)
                .prop_map(|(neg, items, sub)| ClassExpr { neg, items, sub: sub.map(Box::new) })
                .boxed()
        }
    }
    level(cfg.clone(), cfg.sub_depth)
}

pub fn quant_strategy(reluctant: bool, counted_max: u32) -> BoxedStrategy<(u32, Option<u32>, bool, bool)> {
    let cm = counted_max.max(1);
    let bounds = prop_oneof![
        3 => Just((0u32, Some(1u32), false)),
        3 => Just((0, None, false)),
        3 => Just((1, None, false)),
        2 => (0..=cm).prop_map(|n| (n, Some(n), true)),
        2 => (0..=cm.min(2)).prop_map(|n| (n, None, true)),
        3 => (0..=cm, 0..=cm).prop_map(|(a, b)| (a.min(b), Some(a.max(b)), true)),
    ];
    let greedy = if reluctant { prop::bool::weighted(0.7).boxed() } else { Just(true).boxed() };
    (bounds, greedy).prop_map(|((min, max, brace), g)| (min, max, g, brace)).boxed()
}

/// top-level pattern strategy: mostly a sequence of 2-4 recursive nodes, so that trivial one-leaf patterns are rare
pub fn node_strategy(cfg: &GenCfg) -> BoxedStrategy<Node> {
    let inner = inner_node_strategy(cfg);
    prop_oneof![
        2 => inner.clone(),
        5 => prop::collection::vec(inner.clone(), 2..5).prop_map(Node::Cat),
        1 => prop::collection::vec(inner, 2..4).prop_map(Node::Alt),
    ]
    .boxed()
}

pub fn inner_node_strategy(cfg: &GenCfg) -> BoxedStrategy<Node> {
    let mut leaves: Vec<(u32, BoxedStrategy<Node>)> = vec![];
    leaves.push((cfg.w_lit.max(1), prop::sample::select(cfg.lits.clone()).prop_map(Node::Lit).boxed()));
    if cfg.w_dot > 0 {
        leaves.push((cfg.w_dot, Just(Node::Dot).boxed()));
    }
    if cfg.w_class > 0 {
        leaves.push((cfg.w_class, class_strategy(&cfg.class).prop_map(Node::Class).boxed()));
    }
    if cfg.w_esc > 0 {
        leaves.push((cfg.w_esc, esc_strategy().prop_map(Node::Esc).boxed()));
    }
    if cfg.w_anchor > 0 {
        leaves.push((cfg.w_anchor, prop_oneof![Just(Node::Bol), Just(Node::Eol)].boxed()));
    }
    if cfg.w_backref > 0 {
        leaves.push((cfg.w_backref, (0u32..65536).prop_map(Node::BackRef).boxed()));
    }
    if cfg.w_empty > 0 {
        leaves.push((cfg.w_empty, Just(Node::Empty).boxed()));
    }
    let leaf = proptest::strategy::Union::new_weighted(leaves).boxed();
    let reluctant = cfg.reluctant;
    let counted_max = cfg.counted_max;
    let (cap, noncap) = (cfg.cap, cfg.noncap);
    leaf.prop_recursive(cfg.depth, cfg.size, 4, move |inner| {
        let mut opts: Vec<(u32, BoxedStrategy<Node>)> = vec![];
        if cap {
            opts.push((3, inner.clone().prop_map(Node::cap).boxed()));
        }
        if noncap {
            opts.push((1, inner.clone().prop_map(Node::ncap).boxed()));
        }
        opts.push((3, prop::collection::vec(inner.clone(), 2..4).prop_map(Node::Alt).boxed()));
        opts.push((6, prop::collection::vec(inner.clone(), 2..5).prop_map(Node::Cat).boxed()));
        opts.push((
            6,
            (inner, quant_strategy(reluctant, counted_max))
                .prop_map(|(b, (min, max, greedy, brace))| Node::Rep { body: Box::new(b), min, max, greedy, brace })
                .boxed(),
        ));
        proptest::strategy::Union::new_weighted(opts)
    })
    .boxed()
}

/// flag subsets over the given letters (bit i of the generated number selects letter i)
pub fn flags_strategy(letters: &'static str) -> BoxedStrategy<String> {
    let n = letters.chars().count() as u32;
    (0u32..(1 << n))
        .prop_map(move |bits| letters.chars().enumerate().filter(|(i, _)| bits & (1 << i) != 0).map(|(_, c)| c).collect())
        .boxed()
}

/// raw inputs: index vectors, mapped onto the pattern's alphabet by `materialize_input`
pub fn raw_inputs(n: usize, max_len: usize) -> BoxedStrategy<Vec<Vec<u16>>> {
    prop::collection::vec(prop::collection::vec(any::<u16>(), 0..=max_len), n..=n).boxed()
}

pub fn materialize_input(raw: &[u16], alphabet: &[char]) -> String {
    raw.iter().map(|i| alphabet[((*i as usize) * alphabet.len()) >> 16]).collect()
}

/// the input alphabet for a pattern: its own letters (twice, to bias towards matches), case counterparts when
/// `i` is involved, line terminators when anchors / dot / m / s are involved, and outsiders
pub fn input_alphabet(node: &Node, f: Flags, extra: &[char]) -> Vec<char> {
    let mut a = node.alphabet();
    a.retain(|c| *c != '\u{0}');
    let own = a.clone();
    a.extend(own.iter().cloned());
    // case counterparts: always present (without flag i they must not match), more of them under i
    for c in &own {
        if let Some(d) = ucd::counterpart(*c) {
            a.push(d);
            if f.i {
                a.push(d);
            }
        }
    }
    let has_dot = node.any(&|n| matches!(n, Node::Dot));
    if node.has_anchor() || has_dot || f.m || f.s {
        a.push('\n');
        if has_dot || f.s {
            a.push('\r');
        }
    }
    if node.any(&|n| matches!(n, Node::Esc(_)) || matches!(n, Node::Class(c) if c.items.iter().any(|i| matches!(i, Item::Esc(_))))) {
        a.extend(['7', ' ', 'Q', '-']);
    }
    a.extend(extra.iter().cloned());
    if a.is_empty() {
        a.push('a');
    }
    a.push('z');
    a
}

/// Build an input that is likely to contain matches: strings sampled from the pattern's own language (choices taken
/// from the raw index vector), glued together with a little random filler. Anchors are ignored and classes are sampled
/// from a small candidate list, so the result is a good guess, not a guaranteed match.
pub fn sample_input(node: &Node, f: Flags, raw: &[u16], alphabet: &[char]) -> String {
    sample_input_scaled(node, f, raw, alphabet, 4, 60)
}

/// the same with a chosen cap on the iterations taken per quantifier and on the number of nodes visited
pub fn sample_input_scaled(node: &Node, f: Flags, raw: &[u16], alphabet: &[char], rep_cap: u32, budget: usize) -> String {
    struct S<'a> {
        raw: &'a [u16],
        k: usize,
        caps: Vec<Option<String>>,
        i: bool,
        budget: usize,
        rep_cap: u32,
    }
    impl<'a> S<'a> {
        fn pick(&mut self, n: usize) -> usize {
            let v = if self.raw.is_empty() { 0 } else { self.raw[self.k % self.raw.len()] as usize };
            self.k += 1;
            if n == 0 {
                0
            } else {
                (v.wrapping_mul(31).wrapping_add(self.k * 7)) % n
            }
        }
        fn class_member(&mut self, ce: &ClassExpr, extra: &[char]) -> Option<char> {
            let mut cands: Vec<char> = vec![];
            fn ends(ce: &ClassExpr, v: &mut Vec<char>) {
                for it in &ce.items {
                    match it {
                        Item::Char(c) => v.push(*c),
                        Item::Range(a, b) => {
                            v.push(*a);
                            v.push(*b);
                            if let Some(m) = char::from_u32((*a as u32 + *b as u32) / 2) {
                                v.push(m);
                            }
                        }
                        Item::Esc(_) => {}
                    }
                }
                if let Some(s) = &ce.sub {
                    ends(s, v);
                }
            }
            ends(ce, &mut cands);
            cands.extend(extra.iter().cloned());
            cands.extend(['a', 'b', '1', ' ', 'A', 'z', 'é', '-', '\n', 'x', '7', 'Q']);
            let n = cands.len();
            let start = self.pick(n);
            (0..n).map(|d| cands[(start + d) % n]).find(|c| ucd::class_contains(ce, *c, self.i))
        }
        fn go(&mut self, n: &Node, out: &mut String, alphabet: &[char]) {
            if self.budget == 0 {
                return;
            }
            self.budget -= 1;
            match n {
                Node::Empty | Node::Bol | Node::Eol => {}
                Node::Lit(c) => {
                    let c = if self.i && self.pick(3) == 0 { ucd::counterpart(*c).unwrap_or(*c) } else { *c };
                    out.push(c)
                }
                Node::Dot => out.push(alphabet[self.pick(alphabet.len())]),
                Node::Class(ce) => {
                    if let Some(c) = self.class_member(ce, alphabet) {
                        out.push(c)
                    }
                }
                Node::Esc(e) => {
                    let cands = ['a', '1', ' ', 'A', 'é', '-', '\n', 'z', '7', '_', ':'];
                    let st = self.pick(cands.len());
                    if let Some(c) = (0..cands.len()).map(|d| cands[(st + d) % cands.len()]).find(|c| ucd::esc_contains(e, *c)) {
                        out.push(c)
                    }
                }
                Node::Group(k, b) => {
                    let mut t = String::new();
                    self.go(b, &mut t, alphabet);
                    if *k != 0 && *k != CAP {
                        let k = *k as usize;
                        if self.caps.len() <= k {
                            self.caps.resize(k + 1, None);
                        }
                        self.caps[k] = Some(t.clone());
                    }
                    out.push_str(&t);
                }
                Node::Alt(v) => {
                    let b = self.pick(v.len());
                    self.go(&v[b], out, alphabet)
                }
                Node::Cat(v) => {
                    for c in v {
                        self.go(c, out, alphabet)
                    }
                }
                Node::Rep { body, min, max, .. } => {
                    let hi = max.map_or(*min + 2, |m| m.min(*min + 2));
                    let cnt = *min + self.pick((hi - *min + 1) as usize) as u32;
                    for _ in 0..cnt.min(self.rep_cap) {
                        self.go(body, out, alphabet)
                    }
                }
                Node::BackRef(k) => {
                    if let Some(Some(t)) = self.caps.get(*k as usize) {
                        let t = t.clone();
                        out.push_str(&t)
                    }
                }
            }
        }
    }
    let mut s = S { raw, k: 0, caps: vec![], i: f.i, budget, rep_cap };
    let mut out = String::new();
    let pieces = 1 + s.pick(2);
    for _ in 0..pieces {
        let junk = s.pick(3);
        for _ in 0..junk {
            out.push(alphabet[s.pick(alphabet.len())]);
        }
        s.go(node, &mut out, alphabet);
    }
    if s.pick(2) == 0 {
        out.push(alphabet[s.pick(alphabet.len())]);
    }
    out
}


/// "Large quantity" cases: a small generated pattern in which one quantity is scaled up — a quantifier bound, the length
/// of a literal, the number of alternatives, the number of groups before a back-reference, the nesting depth — to a
/// value between 5 and 40, with inputs sampled from the scaled pattern's own language (no cap on the iterations taken)
/// plus near misses (one character dropped, doubled, embedded in filler). Returns (raw node, flags, literal inputs).
pub fn scaled_strategy(cfg: &GenCfg, flag_letters: &'static str) -> BoxedStrategy<(Node, String, Vec<String>)> {
    let mut small = cfg.clone();
    small.size = 6;
    small.depth = 2;
    let lits = cfg.lits.clone();
    (node_strategy(&small), 0u8..9, 5u32..=40, any::<u16>(), flags_strategy(flag_letters), prop::collection::vec(prop::collection::vec(any::<u16>(), 6..=6), 3..=3))
        .prop_map(move |(base, kind, n, sel, flags, raws)| {
            let l = |k: usize| Node::Lit(lits[k % lits.len()]);
            // long literals: half of them over the pattern's few letters (self-overlapping), half over forty distinct
            // characters (no character recurs)
            const POOL: &[char] = &['a', 'b', 'c', 'd', 'e', 'f', 'g', 'h', 'i', 'j', 'k', 'l', 'm', 'n', 'o', 'p', 'q', 'r', 's', 't', 'u', 'v', 'w', 'x', 'y', 'z', '0', '1', '2', '3', '4', '5', '6', '7', '8', '9', 'A', 'B', 'C', 'D'];
            let long_lit = |n: usize, pick: usize, distinct: bool| -> Node {
                Node::Cat((0..n).map(|k| if distinct { Node::Lit(POOL[(pick + k) % POOL.len()]) } else { Node::Lit(lits[(pick + k * (1 + pick % 3)) % lits.len()]) }).collect())
            };
            let pick = sel as usize;
            let node = match kind {
                // a quantifier with a large bound over the base (or over one letter when the base is nullable-heavy)
                // (the repeated body is a plain two-letter literal: a generated body under a large count backtracks exponentially)
                0 => Node::Cat(vec![Node::Rep { body: Box::new(Node::ncap(Node::Cat(vec![l(pick), l(pick + 1 + pick % 2)]))), min: n, max: Some(n), greedy: true, brace: true }, base.clone()]),
                1 => Node::Cat(vec![l(pick), Node::Rep { body: Box::new(l(pick + 1)), min: n, max: Some(n + (sel as u32 % 3)), greedy: sel & 8 == 0, brace: true }, base.clone()]),
                2 => Node::Cat(vec![base.clone(), Node::Rep { body: Box::new(Node::Class(ClassExpr { neg: false, items: vec![Item::Char(lits[pick % lits.len()]), Item::Char(lits[(pick + 1) % lits.len()])], sub: None })), min: 0, max: Some(n), greedy: sel & 8 == 0, brace: true }, l(pick + 2)]),
                // a long literal
                3 => Node::Cat(vec![base.clone(), long_lit(n as usize, pick, sel & 128 != 0)]),
                // a long leading literal (the prefix the scan looks for), then the base
                7 => Node::Cat(vec![long_lit(n as usize, pick, sel & 128 != 0), base.clone()]),
                // a long capture and a reference to it
                8 => Node::Cat(vec![
                    Node::cap(Node::Rep {
                        body: Box::new(if sel & 16 == 0 { Node::Dot } else { Node::Class(ClassExpr { neg: false, items: vec![Item::Char(lits[pick % lits.len()]), Item::Char(lits[(pick + 1) % lits.len()]), Item::Char(lits[(pick + 2) % lits.len()])], sub: None }) }),
                        min: n,
                        max: if sel & 32 == 0 { Some(n) } else { None },
                        greedy: true,
                        brace: true,
                    }),
                    if sel & 64 == 0 { Node::Empty } else { l(pick + 3) },
                    Node::BackRef(0),
                    base.clone(),
                ]),
                // many alternatives
                4 => Node::Cat(vec![Node::ncap(Node::Alt((0..n as usize).map(|k| Node::Cat(vec![l(k), l(k / lits.len() + pick)])).collect())), base.clone()]),
                // many groups, then a reference to a late one
                5 => {
                    let mut v: Vec<Node> = (0..n as usize).map(|k| Node::cap(l(k + pick))).collect();
                    v.push(base.clone());
                    v.push(Node::BackRef(65535 - (sel as u32 % 4096)));
                    Node::Cat(v)
                }
                // deep nesting
                _ => {
                    let mut x = base.clone();
                    for k in 0..n.min(30) {
                        x = if k % 2 == 0 { Node::cap(x) } else { Node::ncap(Node::Cat(vec![x, Node::rep(l(pick + k as usize), 0, Some(1), true)])) };
                    }
                    x
                }
            };
            let resolved = resolve(&node);
            let f = Flags::from_str(&flags);
            let alpha = input_alphabet(&resolved, f, &[]);
            let mut inputs: Vec<String> = vec![];
            for (j, raw) in raws.iter().enumerate() {
                let m: String = sample_input_scaled(&resolved, f, raw, &alpha, 64, 600).chars().take(160).collect();
                let cs: Vec<char> = m.chars().collect();
                match j {
                    0 => inputs.push(m.clone()),
                    1 => {
                        // one character dropped; one character changed (towards the end more often than not); a part
                        // of the match directly in front of the match
                        if !cs.is_empty() {
                            let at = (raw[0] as usize * cs.len()) >> 16;
                            inputs.push(cs.iter().enumerate().filter(|(i, _)| *i != at).map(|(_, c)| *c).collect());
                            let at2 = cs.len() - 1 - ((raw[3] as usize * cs.len().min(6)) >> 16);
                            let other = alpha.iter().find(|c| **c != cs[at2]).copied().unwrap_or('~');
                            inputs.push(cs.iter().enumerate().map(|(i, c)| if i == at2 { other } else { *c }).collect());
                            let k = 1 + ((raw[4] as usize * (cs.len() - 1).max(1)) >> 16);
                            inputs.push(format!("{}{m}", cs[..k.min(cs.len())].iter().collect::<String>()));
                        }
                        inputs.push(m.clone());
                    }
                    _ => {
                        // embedded in filler, and doubled
                        let filler: String = (0..(raw[1] % 20) as usize).map(|k| alpha[(raw[2] as usize + k * 7) % alpha.len()]).collect();
                        inputs.push(format!("{filler}{m}{filler}"));
                        if cs.len() <= 60 {
                            inputs.push(format!("{m}{m}"));
                        }
                    }
                }
            }
            inputs.dedup();
            (node, flags, inputs)
        })
        .boxed()
}
