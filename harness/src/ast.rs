//! Pattern AST, class-expression AST, renderer, structural predicates.
use crate::proto::Dialect;
use serde::{Deserialize, Serialize};

#[derive(Clone, Debug, PartialEq, Eq, Hash, Serialize, Deserialize)]
pub enum EscKind {
    Digit,     // \d
    Word,      // \w
    Space,     // \s
    NameStart, // \i
    NameChar,  // \c
    Cat(String),   // \p{Lu}
    Block(String), // \p{IsBasicLatin}
}

#[derive(Clone, Debug, PartialEq, Eq, Hash, Serialize, Deserialize)]
pub struct Esc {
    pub kind: EscKind,
    pub neg: bool,
}

impl Esc {
    pub fn render(&self) -> String {
        match &self.kind {
            EscKind::Digit => if self.neg { "\\D" } else { "\\d" }.to_string(),
            EscKind::Word => if self.neg { "\\W" } else { "\\w" }.to_string(),
            EscKind::Space => if self.neg { "\\S" } else { "\\s" }.to_string(),
            EscKind::NameStart => if self.neg { "\\I" } else { "\\i" }.to_string(),
            EscKind::NameChar => if self.neg { "\\C" } else { "\\c" }.to_string(),
            EscKind::Cat(n) => format!("\\{}{{{}}}", if self.neg { 'P' } else { 'p' }, n),
            EscKind::Block(n) => format!("\\{}{{Is{}}}", if self.neg { 'P' } else { 'p' }, n),
        }
    }
}

#[derive(Clone, Debug, PartialEq, Eq, Hash, Serialize, Deserialize)]
pub enum Item {
    Char(char),
    Range(char, char),
    Esc(Esc),
}

#[derive(Clone, Debug, PartialEq, Eq, Hash, Serialize, Deserialize)]
pub struct ClassExpr {
    pub neg: bool,
    pub items: Vec<Item>,
    pub sub: Option<Box<ClassExpr>>,
}

pub fn render_class_char(c: char, out: &mut String) {
    match c {
        '\\' | '[' | ']' | '-' | '^' => {
            out.push('\\');
            out.push(c)
        }
        '\n' => out.push_str("\\n"),
        '\r' => out.push_str("\\r"),
        '\t' => out.push_str("\\t"),
        _ => out.push(c),
    }
}

fn render_range_end(c: char, esc: bool, out: &mut String) {
    if esc && matches!(c, '.' | '*' | '+' | '?' | '(' | ')' | '{' | '}' | '|' | '$') {
        out.push('\\');
        out.push(c);
    } else {
        render_class_char(c, out);
    }
}

impl ClassExpr {
    pub fn render(&self, out: &mut String) {
        out.push('[');
        if self.neg {
            out.push('^');
        }
        for it in &self.items {
            match it {
                Item::Char(c) => render_class_char(*c, out),
                Item::Range(a, b) => {
                    // end points that are metacharacters outside a class may be written escaped (\. \* ...):
                    // done for the pairs whose code points differ in the lowest bit, so both spellings occur
                    let esc = ((*a as u32) ^ (*b as u32)) & 1 == 1;
                    render_range_end(*a, esc, out);
                    out.push('-');
                    render_range_end(*b, esc, out);
                }
                Item::Esc(e) => out.push_str(&e.render()),
            }
        }
        if let Some(s) = &self.sub {
            out.push('-');
            s.render(out);
        }
        out.push(']');
    }
    pub fn depth(&self) -> usize {
        1 + self.sub.as_ref().map(|s| s.depth()).unwrap_or(0)
    }
    pub fn has_neg_or_sub(&self) -> bool {
        self.neg
            || self.sub.is_some()
            || self.items.iter().any(|i| matches!(i, Item::Esc(e) if e.neg))
    }
}

#[derive(Clone, Debug, PartialEq, Eq, Hash, Serialize, Deserialize)]
pub enum Node {
    Empty,
    Lit(char),
    Dot,
    Class(ClassExpr),
    Esc(Esc),
    Bol,
    Eol,
    /// nr = group number (0 = non-capturing). Before `resolve` capturing groups carry nr = u32::MAX.
    Group(u32, Box<Node>),
    Alt(Vec<Node>),
    Cat(Vec<Node>),
    /// max None = unbounded; brace = spell with {n,m} even where ?,*,+ would do
    Rep {
        body: Box<Node>,
        min: u32,
        max: Option<u32>,
        greedy: bool,
        brace: bool,
    },
    /// before `resolve`: raw 16-bit selector; after: group number
    BackRef(u32),
}

pub const CAP: u32 = u32::MAX;

impl Node {
    pub fn cap(body: Node) -> Node {
        Node::Group(CAP, Box::new(body))
    }
    pub fn ncap(body: Node) -> Node {
        Node::Group(0, Box::new(body))
    }
    pub fn rep(body: Node, min: u32, max: Option<u32>, greedy: bool) -> Node {
        Node::Rep {
            body: Box::new(body),
            min,
            max,
            greedy,
            brace: false,
        }
    }
    pub fn size(&self) -> usize {
        match self {
            Node::Group(_, b) => 1 + b.size(),
            Node::Alt(v) | Node::Cat(v) => 1 + v.iter().map(|n| n.size()).sum::<usize>(),
            Node::Rep { body, .. } => 1 + body.size(),
            _ => 1,
        }
    }
    pub fn children(&self) -> Vec<&Node> {
        match self {
            Node::Group(_, b) => vec![b],
            Node::Alt(v) | Node::Cat(v) => v.iter().collect(),
            Node::Rep { body, .. } => vec![body],
            _ => vec![],
        }
    }
    pub fn any(&self, f: &dyn Fn(&Node) -> bool) -> bool {
        f(self) || self.children().iter().any(|c| c.any(f))
    }
    pub fn count(&self, f: &dyn Fn(&Node) -> bool) -> usize {
        (if f(self) { 1 } else { 0 }) + self.children().iter().map(|c| c.count(f)).sum::<usize>()
    }
    pub fn n_groups(&self) -> u32 {
        self.count(&|n| matches!(n, Node::Group(k, _) if *k != 0)) as u32
    }
    pub fn has_backref(&self) -> bool {
        self.any(&|n| matches!(n, Node::BackRef(_)))
    }
    pub fn has_anchor(&self) -> bool {
        self.any(&|n| matches!(n, Node::Bol | Node::Eol))
    }
    pub fn has_reluctant(&self) -> bool {
        self.any(&|n| matches!(n, Node::Rep { greedy: false, .. }))
    }
    pub fn has_rep(&self) -> bool {
        self.any(&|n| matches!(n, Node::Rep { .. }))
    }
    /// can this node (syntactically) match the empty string? anchors and back-references count as possibly empty
    pub fn possibly_empty(&self) -> bool {
        match self {
            Node::Empty | Node::Bol | Node::Eol | Node::BackRef(_) => true,
            Node::Lit(_) | Node::Dot | Node::Class(_) | Node::Esc(_) => false,
            Node::Group(_, b) => b.possibly_empty(),
            Node::Alt(v) => v.iter().any(|n| n.possibly_empty()),
            Node::Cat(v) => v.iter().all(|n| n.possibly_empty()),
            Node::Rep { body, min, .. } => *min == 0 || body.possibly_empty(),
        }
    }
    /// fixed match length if statically known (same notion as the engine's get_match_length, computed independently)
    pub fn fixed_len(&self) -> Option<usize> {
        match self {
            Node::Empty | Node::Bol | Node::Eol => Some(0),
            Node::Lit(_) | Node::Dot | Node::Class(_) | Node::Esc(_) => Some(1),
            Node::BackRef(_) => None,
            Node::Group(_, b) => b.fixed_len(),
            Node::Alt(v) => {
                let f = v.first()?.fixed_len()?;
                if v.iter().all(|n| n.fixed_len() == Some(f)) {
                    Some(f)
                } else {
                    None
                }
            }
            Node::Cat(v) => v.iter().try_fold(0usize, |a, n| n.fixed_len().map(|l| a + l)),
            Node::Rep { body, min, max, .. } => {
                let l = body.fixed_len()?;
                if l == 0 {
                    return Some(0);
                }
                if Some(*min) == *max {
                    Some(l * *min as usize)
                } else {
                    None
                }
            }
        }
    }
    /// a quantifier (other than {1}) applied to a body that can match the empty string
    pub fn has_quantified_possibly_empty(&self) -> bool {
        self.any(&|n| match n {
            Node::Rep { body, min, max, .. } => {
                !(*min == 1 && *max == Some(1)) && body.possibly_empty()
            }
            _ => false,
        })
    }
    /// a capturing group inside a quantifier with max > 1
    pub fn has_group_in_loop(&self) -> bool {
        self.any(&|n| match n {
            Node::Rep { body, max, .. } => max.map_or(true, |m| m > 1) && body.n_groups() > 0,
            _ => false,
        })
    }
    /// group numbers of capturing groups inside a quantifier with max > 1
    pub fn groups_in_loops(&self) -> Vec<u32> {
        fn all_groups(n: &Node, out: &mut Vec<u32>) {
            if let Node::Group(k, _) = n {
                if *k != 0 {
                    out.push(*k);
                }
            }
            for c in n.children() {
                all_groups(c, out);
            }
        }
        fn walk(n: &Node, out: &mut Vec<u32>) {
            if let Node::Rep { body, max, .. } = n {
                if max.map_or(true, |m| m > 1) {
                    all_groups(body, out);
                }
            }
            for c in n.children() {
                walk(c, out);
            }
        }
        let mut v = vec![];
        walk(self, &mut v);
        v.sort();
        v.dedup();
        v
    }
    /// a back-referenced group inside a quantified (other than {1}) term of fixed non-zero length
    pub fn backref_to_group_in_fixed_loop(&self) -> bool {
        let refs = self.backrefs();
        if refs.is_empty() {
            return false;
        }
        fn groups(n: &Node, out: &mut Vec<u32>) {
            if let Node::Group(k, _) = n {
                if *k != 0 {
                    out.push(*k);
                }
            }
            for c in n.children() {
                groups(c, out);
            }
        }
        self.any(&|n| match n {
            Node::Rep { body, min, max, .. } if !(*min == 1 && *max == Some(1)) => {
                if body.fixed_len().map_or(false, |l| l > 0) {
                    let mut g = vec![];
                    groups(body, &mut g);
                    g.iter().any(|x| refs.contains(x))
                } else {
                    false
                }
            }
            _ => false,
        })
    }
    pub fn backrefs(&self) -> Vec<u32> {
        let mut v = vec![];
        fn walk(n: &Node, v: &mut Vec<u32>) {
            if let Node::BackRef(k) = n {
                v.push(*k);
            }
            for c in n.children() {
                walk(c, v);
            }
        }
        walk(self, &mut v);
        v.sort();
        v.dedup();
        v
    }
    /// literal characters and range end points used by the pattern
    pub fn alphabet(&self) -> Vec<char> {
        let mut v = vec![];
        fn cls(c: &ClassExpr, v: &mut Vec<char>) {
            for it in &c.items {
                match it {
                    Item::Char(c) => v.push(*c),
                    Item::Range(a, b) => {
                        v.push(*a);
                        v.push(*b);
                        if let Some(p) = char::from_u32(*a as u32 - 1) {
                            if *a as u32 > 0 {
                                v.push(p)
                            }
                        }
                        if let Some(n) = char::from_u32(*b as u32 + 1) {
                            v.push(n)
                        }
                    }
                    Item::Esc(_) => {}
                }
            }
            if let Some(s) = &c.sub {
                cls(s, v);
            }
        }
        fn walk(n: &Node, v: &mut Vec<char>) {
            match n {
                Node::Lit(c) => v.push(*c),
                Node::Class(c) => cls(c, v),
                _ => {}
            }
            for c in n.children() {
                walk(c, v);
            }
        }
        walk(self, &mut v);
        v.sort();
        v.dedup();
        v
    }
}

/// Assign group numbers in source order and map raw back-reference selectors onto groups closed so far.
/// A back-reference with no closed group available becomes the literal 'a'.
pub fn resolve(raw: &Node) -> Node {
    fn go(n: &Node, next: &mut u32, closed: &mut Vec<u32>) -> Node {
        match n {
            Node::Group(k, b) => {
                if *k == 0 {
                    Node::Group(0, Box::new(go(b, next, closed)))
                } else {
                    *next += 1;
                    let nr = *next;
                    let body = go(b, next, closed);
                    closed.push(nr);
                    Node::Group(nr, Box::new(body))
                }
            }
            Node::Alt(v) => Node::Alt(v.iter().map(|c| go(c, next, closed)).collect()),
            Node::Cat(v) => {
                // a sequence inside a sequence is spliced in: the same language, and the renderer's look-ahead for a
                // digit after a back-reference then sees the real successor
                let mut out = vec![];
                for c in v {
                    match go(c, next, closed) {
                        Node::Cat(inner) => out.extend(inner),
                        other => out.push(other),
                    }
                }
                Node::Cat(out)
            }
            Node::Rep {
                body,
                min,
                max,
                greedy,
                brace,
            } => Node::Rep {
                body: Box::new(go(body, next, closed)),
                min: *min,
                max: *max,
                greedy: *greedy,
                brace: *brace,
            },
            Node::BackRef(sel) => {
                if closed.is_empty() {
                    Node::Lit('a')
                } else {
                    let i = ((*sel as usize & 0xffff) * closed.len()) >> 16;
                    Node::BackRef(closed[i.min(closed.len() - 1)])
                }
            }
            other => other.clone(),
        }
    }
    let mut next = 0;
    let mut closed = vec![];
    go(raw, &mut next, &mut closed)
}

/// Like `resolve`, but back-reference numbers are already final (hand-written ASTs).
pub fn number_groups(raw: &Node) -> Node {
    fn go(n: &Node, next: &mut u32) -> Node {
        match n {
            Node::Group(k, b) => {
                if *k == 0 {
                    Node::Group(0, Box::new(go(b, next)))
                } else {
                    *next += 1;
                    let nr = *next;
                    Node::Group(nr, Box::new(go(b, next)))
                }
            }
            Node::Alt(v) => Node::Alt(v.iter().map(|c| go(c, next)).collect()),
            Node::Cat(v) => Node::Cat(v.iter().map(|c| go(c, next)).collect()),
            Node::Rep {
                body,
                min,
                max,
                greedy,
                brace,
            } => Node::Rep {
                body: Box::new(go(body, next)),
                min: *min,
                max: *max,
                greedy: *greedy,
                brace: *brace,
            },
            other => other.clone(),
        }
    }
    let mut next = 0;
    go(raw, &mut next)
}

fn render_lit(c: char, dialect: Dialect, out: &mut String) {
    match c {
        '\\' | '|' | '.' | '-' | '?' | '*' | '+' | '{' | '}' | '(' | ')' | '[' | ']' => {
            out.push('\\');
            out.push(c)
        }
        '^' => out.push_str("\\^"),
        '$' => {
            if dialect == Dialect::XPath {
                out.push_str("\\$")
            } else {
                out.push('$')
            }
        }
        '\n' => out.push_str("\\n"),
        '\r' => out.push_str("\\r"),
        '\t' => out.push_str("\\t"),
        _ => out.push(c),
    }
}

fn is_atom(n: &Node) -> bool {
    matches!(
        n,
        Node::Lit(_) | Node::Dot | Node::Class(_) | Node::Esc(_) | Node::Group(_, _) | Node::Bol | Node::Eol | Node::BackRef(_)
    )
}

fn wrap(n: &Node, dialect: Dialect, out: &mut String) {
    if dialect == Dialect::XPath {
        out.push_str("(?:");
    } else {
        out.push('(');
    }
    render_into(n, dialect, out);
    out.push(')');
}

fn render_quant(min: u32, max: Option<u32>, greedy: bool, brace: bool, out: &mut String) {
    let s = match (min, max, brace) {
        (0, Some(1), false) => "?".to_string(),
        (0, None, false) => "*".to_string(),
        (1, None, false) => "+".to_string(),
        (n, Some(m), _) if n == m => format!("{{{n}}}"),
        (n, None, _) => format!("{{{n},}}"),
        (n, Some(m), _) => format!("{{{n},{m}}}"),
    };
    out.push_str(&s);
    if !greedy {
        out.push('?');
    }
}

pub fn render_into(n: &Node, dialect: Dialect, out: &mut String) {
    match n {
        Node::Empty => {}
        Node::Lit(c) => render_lit(*c, dialect, out),
        Node::Dot => out.push('.'),
        Node::Class(c) => c.render(out),
        Node::Esc(e) => out.push_str(&e.render()),
        Node::Bol => out.push('^'),
        Node::Eol => out.push('$'),
        Node::Group(k, b) => {
            if *k == 0 {
                wrap(b, dialect, out)
            } else {
                out.push('(');
                render_into(b, dialect, out);
                out.push(')');
            }
        }
        Node::Alt(v) => {
            for (i, c) in v.iter().enumerate() {
                if i > 0 {
                    out.push('|');
                }
                render_into(c, dialect, out);
            }
        }
        Node::Cat(v) => {
            for (i, c) in v.iter().enumerate() {
                match c {
                    Node::Alt(_) => wrap(c, dialect, out),
                    Node::BackRef(_) => {
                        // a digit rendered right after \N would be read as part of the number
                        let next_is_digit = v[i + 1..]
                            .iter()
                            .find(|x| !matches!(x, Node::Empty))
                            .map_or(false, |x| starts_with_digit(x));
                        if next_is_digit {
                            wrap(c, dialect, out)
                        } else {
                            render_into(c, dialect, out)
                        }
                    }
                    _ => render_into(c, dialect, out),
                }
            }
        }
        Node::Rep {
            body,
            min,
            max,
            greedy,
            brace,
        } => {
            if is_atom(body) {
                render_into(body, dialect, out);
            } else {
                wrap(body, dialect, out);
            }
            render_quant(*min, *max, *greedy, *brace, out);
        }
        Node::BackRef(k) => {
            out.push('\\');
            out.push_str(&k.to_string());
        }
    }
}

fn starts_with_digit(n: &Node) -> bool {
    match n {
        Node::Lit(c) => c.is_ascii_digit(),
        Node::Cat(v) => v
            .iter()
            .find(|x| !matches!(x, Node::Empty))
            .map_or(false, starts_with_digit),
        Node::Rep { body, .. } => is_atom(body) && starts_with_digit(body),
        Node::Alt(_) => false, // wrapped
        _ => false,
    }
}

pub fn render(n: &Node, dialect: Dialect) -> String {
    let mut s = String::new();
    // a top-level back-reference followed by nothing needs no care
    render_into(n, dialect, &mut s);
    s
}

/// Does the AST use constructs that only XPath has (for XSD rendering of shared patterns)?
pub fn xpath_only_tags(n: &Node) -> Vec<&'static str> {
    let mut t = vec![];
    if n.has_reluctant() {
        t.push("reluctant");
    }
    if n.any(&|x| matches!(x, Node::Group(0, _))) {
        t.push("noncapturing");
    }
    if n.has_backref() {
        t.push("backref");
    }
    t
}
