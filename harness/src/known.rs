//! known_findings.json: read-only at run time.
use serde::Deserialize;
use serde_json::Value;

#[derive(Clone, Debug, Deserialize)]
pub struct Finding {
    pub id: String,
    pub property: String,
    /// named structural region (computed by the harness, never from engine output alone)
    pub region: String,
    /// direction of the disagreement
    pub symptom: String,
    pub witness: Value,
    pub what: String,
    #[serde(default)]
    pub why_not_repaired: String,
}

#[derive(Clone, Debug, Deserialize, Default)]
pub struct Known {
    #[serde(default)]
    pub open: Vec<Finding>,
    #[serde(default)]
    pub fixed: Vec<String>,
}

impl Known {
    pub fn load() -> Known {
        let p = crate::driver::verif_dir().join("known_findings.json");
        match std::fs::read_to_string(&p) {
            Ok(t) => match serde_json::from_str(&t) {
                Ok(k) => k,
                Err(e) => {
                    eprintln!("harness error: {p:?}: {e}");
                    std::process::exit(2)
                }
            },
            Err(_) => Known::default(),
        }
    }
    pub fn open_for<'a>(&'a self, property: &'a str) -> impl Iterator<Item = &'a Finding> + 'a {
        self.open.iter().filter(move |f| f.property == property)
    }
    /// Is a failing case with these region tags and this symptom covered by a listed finding?
    pub fn attribute(&self, property: &str, regions: &[&str], symptom: &str) -> Option<String> {
        self.open
            .iter()
            .find(|f| f.property == property && f.symptom == symptom && regions.contains(&f.region.as_str()))
            .map(|f| f.id.clone())
    }
}
