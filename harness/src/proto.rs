//! Job / outcome types exchanged between supervisor and worker processes.
use serde::{Deserialize, Serialize};

#[derive(Clone, Copy, Debug, PartialEq, Eq, Hash, Serialize, Deserialize)]
pub enum Dialect {
    XPath,
    Xsd,
}

pub const API_IS_MATCH: u8 = 1;
pub const API_REPLACE: u8 = 2;
pub const API_TOKENIZE: u8 = 4;
pub const API_ANALYZE: u8 = 8;
pub const API_ALL: u8 = 15;

#[derive(Clone, Debug, PartialEq, Eq, Hash, Serialize, Deserialize)]
pub struct Job {
    pub dialect: Dialect,
    pub pattern: String,
    pub flags: String,
    /// compile with the optimisation switch of the verification hook set
    pub no_opt: bool,
    pub inputs: Vec<String>,
    pub replacements: Vec<String>,
    pub apis: u8,
    /// compile the pattern this many extra times and run everything on every copy
    /// interleaved (used by C18 only; 0 elsewhere)
    #[serde(default)]
    pub history: Option<History>,
}

impl Job {
    pub fn new(dialect: Dialect, pattern: &str, flags: &str) -> Job {
        Job {
            dialect,
            pattern: pattern.to_string(),
            flags: flags.to_string(),
            no_opt: false,
            inputs: vec![],
            replacements: vec![],
            apis: API_ALL,
            history: None,
        }
    }
}

/// C18: a call history over a pool of regexes, executed by the worker in several ways.
#[derive(Clone, Debug, PartialEq, Eq, Hash, Serialize, Deserialize)]
pub struct History {
    /// (dialect, pattern, flags) of each pool member
    pub pool: Vec<(Dialect, String, String)>,
    pub ops: Vec<Op>,
    pub shuffle_seed: u64,
    pub threads: u32,
    pub thread_reps: u32,
}

#[derive(Clone, Debug, PartialEq, Eq, Hash, Serialize, Deserialize)]
pub enum Op {
    IsMatch { re: usize, input: String },
    Replace { re: usize, input: String, rep: String },
    OpenTokens { re: usize, input: String },
    OpenAnalyze { re: usize, input: String },
    /// advance the i-th opened iterator (modulo the number open) by k steps
    Step { iter: usize, k: usize },
    /// drop the i-th opened iterator
    Drop { iter: usize },
}

#[derive(Clone, Debug, PartialEq, Eq, Hash, Serialize, Deserialize)]
pub enum ErrKind {
    InvalidFlags,
    Syntax,
    MatchesEmptyString,
    InvalidReplacementString,
    Internal,
}

#[derive(Clone, Debug, PartialEq, Eq, Hash, Serialize, Deserialize)]
pub enum Res<T> {
    Ok(T),
    Err(ErrKind),
    Panic(String),
}

impl<T> Res<T> {
    pub fn ok(&self) -> Option<&T> {
        match self {
            Res::Ok(v) => Some(v),
            _ => None,
        }
    }
    pub fn is_panic(&self) -> bool {
        matches!(self, Res::Panic(_))
    }
    pub fn is_bad(&self) -> bool {
        matches!(self, Res::Panic(_) | Res::Err(ErrKind::Internal))
    }
    pub fn err(&self) -> Option<&ErrKind> {
        match self {
            Res::Err(e) => Some(e),
            _ => None,
        }
    }
}

#[derive(Clone, Debug, PartialEq, Eq, Hash, Serialize, Deserialize)]
pub enum MEntry {
    S(String),
    G(usize, Vec<MEntry>),
}

#[derive(Clone, Debug, PartialEq, Eq, Hash, Serialize, Deserialize)]
pub enum AEntry {
    Match(Vec<MEntry>),
    NonMatch(String),
}

#[derive(Clone, Debug, PartialEq, Eq, Hash, Serialize, Deserialize)]
pub struct IterOut<T> {
    pub items: Vec<T>,
    /// the iterator was still producing items when the cap was reached
    pub capped: bool,
    /// after the first None, three more next() calls returned None
    pub none_stable: bool,
    /// a next() call panicked
    pub panic: Option<String>,
}

#[derive(Clone, Debug, PartialEq, Eq, Hash, Serialize, Deserialize, Default)]
pub struct Facts {
    pub prefix: Option<String>,
    pub initial_char_class: bool,
    pub preconditions: usize,
    pub has_bol: bool,
    pub minimum_length: usize,
    pub unambiguous_repeats: usize,
    pub operators: Vec<String>,
}

#[derive(Clone, Debug, PartialEq, Eq, Hash, Serialize, Deserialize)]
pub struct InputOutcome {
    pub is_match: Option<Res<bool>>,
    pub replace: Vec<Res<String>>,
    pub tokens: Option<Res<IterOut<String>>>,
    pub analyze: Option<Res<IterOut<AEntry>>>,
    /// force-progress cut-offs observed during: is_match, replace (all), tokenize, analyze
    pub cutoffs: [u64; 4],
}

impl InputOutcome {
    pub fn any_cutoff(&self) -> bool {
        self.cutoffs.iter().any(|c| *c > 0)
    }
}

#[derive(Clone, Debug, PartialEq, Eq, Hash, Serialize, Deserialize)]
pub struct Outcome {
    pub compile: Res<Facts>,
    /// force-progress cut-offs during compilation (the matches-empty-string probe)
    pub compile_cutoffs: u64,
    pub per_input: Vec<InputOutcome>,
    pub history: Option<HistoryOutcome>,
}

#[derive(Clone, Debug, PartialEq, Eq, Hash, Serialize, Deserialize)]
pub struct HistoryOutcome {
    /// mismatches found by the worker between executions (empty = all agree); each is a description
    pub mismatches: Vec<String>,
    pub calls: usize,
    pub max_live_iters_on_one_regex: usize,
    pub shared_pattern_pairs: usize,
    pub compile_failed: bool,
}

/// What the supervisor knows about a job after running it.
#[derive(Clone, Debug, PartialEq, Eq)]
pub enum JobResult {
    Done(Outcome),
    /// exceeded the CPU budget twice (second time alone with 10x budget)
    Hang,
    /// the worker process died (abort, stack overflow, signal)
    Died(String),
}

impl JobResult {
    pub fn done(&self) -> Option<&Outcome> {
        match self {
            JobResult::Done(o) => Some(o),
            _ => None,
        }
    }
}
