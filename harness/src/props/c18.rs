//! C18 — a compiled Regex is a pure, reusable, thread-safe value (call histories, model = fresh object per call).
use crate::ast::*;
use crate::driver::*;
use crate::gen::{self, GenCfg};
use crate::oracle_lang::Flags;
use crate::proto::*;
use proptest::prelude::*;
use serde::{Deserialize, Serialize};
use serde_json::{json, Value};

pub struct C18;

#[derive(Clone, Debug, PartialEq, Eq, Hash, Serialize, Deserialize)]
pub struct RawOp {
    pub kind: u8,
    pub re: u8,
    pub input: Vec<u16>,
    pub rep: u8,
    pub k: u8,
}

#[derive(Clone, Debug, PartialEq, Eq, Hash, Serialize, Deserialize)]
pub struct Case18 {
    pub nodes: Vec<Node>,
    /// pool member i repeats the text of member i-1 (a second, separately compiled object)
    pub dup: Vec<bool>,
    pub flags: Vec<String>,
    pub ops: Vec<RawOp>,
    pub shuffle_seed: u64,
    /// compile pool member i with Regex::xsd (a repeated member then has the same text under the other dialect)
    #[serde(default)]
    pub xsd: Vec<bool>,
    /// this many is_match calls on pool member 0 are put in front of the history (a well-worn object: whatever an
    /// object switches on after its n-th call must not change an answer)
    #[serde(default)]
    pub wear: u16,
}

const REPS: &[&str] = &["", "x", "[$0]", "$1", "\\$", "$"];

pub fn build(case: &Case18) -> History {
    let mut pool: Vec<(Dialect, String, String)> = vec![];
    let mut alpha: Vec<char> = vec![];
    for (i, n) in case.nodes.iter().enumerate() {
        let node = resolve(n);
        let f = case.flags.get(i).cloned().unwrap_or_default();
        alpha.extend(gen::input_alphabet(&node, Flags::from_str(&f), &[]));
        let xsd = case.xsd.get(i).copied().unwrap_or(false);
        if i > 0 && case.dup.get(i).copied().unwrap_or(false) {
            let mut prev = pool[i - 1].clone();
            if xsd {
                prev.0 = if prev.0 == Dialect::XPath { Dialect::Xsd } else { Dialect::XPath };
            }
            pool.push(prev);
        } else if xsd {
            pool.push((Dialect::Xsd, render(&node, Dialect::Xsd), f));
        } else {
            pool.push((Dialect::XPath, render(&node, Dialect::XPath), f));
        }
    }
    // characters outside ASCII and outside the BMP are always available to the haystacks
    alpha.extend(['é', '𐐀']);
    alpha.sort();
    alpha.dedup();
    let mut ops: Vec<Op> = (0..case.wear as usize)
        .map(|j| {
            let n = alpha.len();
            let input: String = [alpha[j % n], alpha[(j / n) % n], alpha[(j / 7) % n]].iter().take(1 + j % 3).collect();
            Op::IsMatch { re: 0, input }
        })
        .collect();
    let rest: Vec<Op> = case
        .ops
        .iter()
        .map(|o| {
            let mut input = gen::materialize_input(&o.input, &alpha);
            if o.k >= 160 && !alpha.is_empty() {
                // a third of the haystacks are long and all of one length (40 characters): whatever an object keeps
                // about a haystack must not be recognised by length or place alone
                let mut cs: Vec<char> = input.chars().collect();
                let mut j = o.rep as usize;
                while cs.len() < 40 {
                    cs.push(alpha[j % alpha.len()]);
                    j += 1 + (o.k as usize % 3);
                }
                input = cs.into_iter().collect();
            }
            let re = o.re as usize;
            match o.kind % 8 {
                0 => Op::IsMatch { re, input },
                1 => Op::Replace { re, input, rep: REPS[o.rep as usize % REPS.len()].to_string() },
                2 => Op::OpenTokens { re, input },
                3 => Op::OpenAnalyze { re, input },
                4 | 5 | 6 => Op::Step { iter: o.re as usize, k: 1 + (o.k as usize % 3) },
                _ => Op::Drop { iter: o.re as usize },
            }
        })
        .collect();
    ops.extend(rest);
    History { pool, ops, shuffle_seed: case.shuffle_seed, threads: 4, thread_reps: 4 }
}

fn check(case: &Case18, ctx: &mut Ctx) -> Verdict {
    let h = build(case);
    let mut job = Job::new(Dialect::XPath, "", "");
    job.history = Some(h.clone());
    let out = match ctx.w.run(&job) {
        JobResult::Done(o) => o,
        JobResult::Hang => return Verdict::Skip("hang"),
        JobResult::Died(_) => return Verdict::Skip("died"),
    };
    let ho = match out.history {
        Some(h) => h,
        None => return Verdict::Skip("no-history-outcome"),
    };
    // process-wide state: every pool member, asked again in this (long-lived, by now well used) worker process,
    // must answer exactly as in a brand-new process that has never compiled anything else
    let inputs_of = |i: usize| -> Vec<String> {
        let mut v: Vec<String> = h
            .ops
            .iter()
            .filter_map(|o| match o {
                Op::IsMatch { re, input } | Op::OpenTokens { re, input } | Op::OpenAnalyze { re, input } | Op::Replace { re, input, .. } if re % h.pool.len() == i => Some(input.clone()),
                _ => None,
            })
            .take(4)
            .collect();
        v.push("ab".into());
        v
    };
    for (i, (d, p, f)) in h.pool.iter().enumerate() {
        // members whose text also occurs elsewhere in the pool (that is where a process-wide table keyed too
        // coarsely would show), and always the first member
        let shared = h.pool.iter().enumerate().any(|(k, m)| k != i && m.1 == *p);
        if i != 0 && !shared {
            continue;
        }
        let mut j = Job::new(*d, p, f);
        j.inputs = inputs_of(i);
        j.replacements = vec!["[$0]".into()];
        let here = ctx.w.run(&j);
        let mut fresh_worker = crate::supervisor::WorkerHandle::new();
        let fresh = fresh_worker.run(&j);
        ctx.obs.eval(2);
        if let (JobResult::Done(a), JobResult::Done(b)) = (&here, &fresh) {
            if let Some(d) = super::c08::diff_outcomes(a, b, &j.inputs) {
                let d = d.replace("optimised", "used-process").replace("unoptimised", "fresh-process");
                return Verdict::Fail(Failure {
                    sub: "process-wide-state".into(),
                    expected: "the same results in a worker process that has compiled other regexes before as in a brand-new process".into(),
                    actual: d,
                    detail: format!("member #{i} {:?} of pool={:?}", h.pool[i], h.pool),
                });
            }
        }
    }
    if h.pool.iter().any(|m| m.0 == Dialect::Xsd) {
        ctx.obs.label("pool-mixes-dialects");
    }
    if case.wear >= 64 {
        ctx.obs.label("object-used-more-than-64-times");
    }
    if ho.compile_failed {
        return Verdict::Skip("compile_err");
    }
    ctx.obs.eval(ho.calls as u64 * 4);
    if ho.max_live_iters_on_one_regex >= 2 {
        ctx.obs.label("two-live-iterators-on-one-regex");
    }
    if ho.shared_pattern_pairs > 0 {
        ctx.obs.label("same-pattern-compiled-twice");
    }
    if ho.max_live_iters_on_one_regex >= 2 || ho.shared_pattern_pairs > 0 {
        ctx.obs.nontrivial(&h);
    }
    if !ho.mismatches.is_empty() {
        return Verdict::Fail(Failure {
            sub: "history".into(),
            expected: "every call result equals the result of the same call on a freshly compiled Regex".into(),
            actual: ho.mismatches.join(" || "),
            detail: format!("pool={:?}", h.pool),
        });
    }
    ctx.obs.sample(|| json!({"pool": h.pool, "ops": h.ops.iter().take(12).map(|o| format!("{o:?}")).collect::<Vec<_>>(), "n_ops": h.ops.len()}));
    Verdict::Pass
}

impl Prop for C18 {
    type Case = Case18;
    fn id(&self) -> &'static str {
        "C18"
    }
    fn parts(&self, tier: Tier) -> Vec<Part<Case18>> {
        let mut cfg = GenCfg::basic(&['a', 'b', 'c']);
        cfg.w_backref = 3;
        cfg.w_esc = 3;
        cfg.size = 10;
        cfg.w_empty = 0;
        let op = (any::<u8>(), 0u8..4, prop::collection::vec(any::<u16>(), 0..7), any::<u8>(), any::<u8>()).prop_map(|(kind, re, input, rep, k)| RawOp { kind, re, input, rep, k });
        let s = (
            prop::collection::vec(gen::node_strategy(&cfg), 2..5),
            prop::collection::vec(prop::bool::weighted(0.35), 4..=4),
            prop::collection::vec(gen::flags_strategy("smi"), 4..=4),
            prop::collection::vec(op, 10..60),
            any::<u64>(),
            prop::collection::vec(prop::bool::weighted(0.3), 4..=4),
            prop_oneof![6 => Just(0u16), 1 => Just(70u16), 1 => Just(140u16)],
        )
            .prop_map(|(nodes, dup, flags, ops, shuffle_seed, xsd, wear)| Case18 { nodes, dup, flags, ops, shuffle_seed, xsd, wear })
            .boxed();
        vec![Part { name: "histories".into(), strategy: s, cases: tier.pick(20_000, 500_000) }]
    }
    fn extra(&self, _ctx: &mut Ctx) -> Vec<(String, Verdict, Option<Case18>)> {
        // Regex: Send + Sync is a compile-time fact: build the assertion crate against the current tree
        let dir = verif_dir().join("harness").join("sendsync");
        let out = std::process::Command::new("cargo")
            .args(["build", "--offline", "--release", "--target-dir"])
            .arg(verif_dir().join("harness").join("target").join("sendsync"))
            .current_dir(&dir)
            .env("CARGO_NET_OFFLINE", "true")
            .output();
        match out {
            Ok(o) if o.status.success() => vec![],
            Ok(o) => {
                let err = String::from_utf8_lossy(&o.stderr).to_string();
                if err.contains("cannot be sent between threads safely") || err.contains("cannot be shared between threads safely") {
                    vec![(
                        "send-sync".into(),
                        Verdict::Fail(Failure { sub: "send-sync".into(), expected: "regexml::Regex: Send + Sync".into(), actual: "the assertion crate does not compile".into(), detail: err.lines().filter(|l| l.contains("cannot be")).take(3).collect::<Vec<_>>().join(" | ") }),
                        None,
                    )]
                } else {
                    eprintln!("harness error: sendsync crate failed to build for another reason:\n{err}");
                    std::process::exit(2)
                }
            }
            Err(e) => {
                eprintln!("harness error: cannot run cargo: {e}");
                std::process::exit(2)
            }
        }
    }
    fn check(&self, case: &Case18, ctx: &mut Ctx) -> Verdict {
        check(case, ctx)
    }
    fn describe(&self, case: &Case18) -> Value {
        let h = build(case);
        json!({"pool": h.pool, "ops": h.ops.iter().map(|o| format!("{o:?}")).collect::<Vec<_>>(), "shuffle_seed": h.shuffle_seed})
    }
    fn max_shrink_iters(&self) -> u32 {
        1500
    }
    fn rule(&self) -> String {
        "evaluation = one API call of a generated history (10-60 operations, in a quarter of the histories preceded by 70 or 140 is_match calls on the first member, over a pool of 2-4 regexes; haystacks over the patterns' letters plus one non-ASCII and one astral character: is_match, replace_all, open tokenize / analyze iterators, advance one of the live iterators by 1-3 steps, drop one) executed (2) in order on shared objects with the iterators interleaved, (3) in a seeded shuffled order, (4) from 4 threads x 4 repetitions behind a barrier, each compared with (1) the same call on a freshly compiled Regex; (5) every pool member asked again in the used worker process vs in a brand-new process (process-wide state; members are compiled under both dialects); plus a compile-time assertion crate for Regex: Send + Sync; non-trivial = at some point two iterators were alive on one regex, or two pool members were compiled from the same text; distinct = distinct histories. Threads are real OS threads: a stress, not schedule enumeration".into()
    }
    fn guards(&self) -> Vec<Guard> {
        vec![
            Guard { label: "two-live-iterators-on-one-regex".into(), of: "".into(), min_fraction: 0.3 },
            Guard { label: "same-pattern-compiled-twice".into(), of: "".into(), min_fraction: 0.1 },
            Guard { label: "pool-mixes-dialects".into(), of: "".into(), min_fraction: 0.3 },
            Guard { label: "object-used-more-than-64-times".into(), of: "".into(), min_fraction: 0.1 },
        ]
    }
    fn assumptions(&self) -> Vec<String> {
        vec!["std::sync::OnceLock (the process-wide block table) cannot be put under a controlled scheduler without rewriting the crate; the sequential interleavings are what detect leaked per-object state".into()]
    }
}
