//! C02 — matches are leftmost, non-overlapping and chosen by ordered-choice priority.
use super::common::*;
use super::spans::*;
use crate::ast::*;
use crate::driver::*;
use crate::gen::{self, GenCfg};
use crate::oracle_bt::Bt;
use crate::oracle_lang::{self, Lang, Tri};
use crate::proto::*;
use proptest::prelude::*;
use serde_json::Value;

pub struct C02;

pub const EXTRA: &[char] = &['𐐀', '\u{301}'];

pub fn strict_applicable(node: &Node) -> bool {
    !node.has_quantified_possibly_empty() && !oracle_lang::backref_into_loop(node)
}

/// Weak clause against R1. Returns Err((symptom, expected, actual)).
pub fn weak_clause(node: &Node, s: &[char], f: oracle_lang::Flags, spans: &[(usize, usize)]) -> Result<(), (&'static str, String, String)> {
    let l = Lang::new(node, s, f);
    let mut p = 0usize;
    for (a, b) in spans {
        if *a < p || b <= a || *b > s.len() {
            return Err(("bad-span", "ascending, non-overlapping, non-empty spans".into(), format!("{spans:?}")));
        }
        for q in p..*a {
            let e = l.ends_from(node, q);
            if l.overflowed() {
                return Ok(());
            }
            if e.iter().any(|x| *x > q) {
                return Err(("not-leftmost", format!("a match starting at {q} (ends {e:?}) before the reported span ({a},{b})"), format!("spans {spans:?}")));
            }
        }
        let e = l.ends_from(node, *a);
        if l.overflowed() {
            return Ok(());
        }
        if !e.contains(b) {
            return Err(("span-not-in-relation", format!("a span starting at {a} ending in one of {e:?}"), format!("({a},{b})")));
        }
        p = *b;
    }
    for q in p..=s.len() {
        let e = l.ends_from(node, q);
        if l.overflowed() {
            return Ok(());
        }
        if e.iter().any(|x| *x > q) {
            return Err(("missed-tail", format!("a further match starting at {q} (ends {e:?})"), format!("spans {spans:?}")));
        }
    }
    Ok(())
}

pub fn check_spans(prop: &str, case: &AstCase, ctx: &mut Ctx) -> Verdict {
    let m = case.materialize(Dialect::XPath, EXTRA);
    match oracle_lang::matches_empty(&m.node, m.flags) {
        Tri::False => {}
        Tri::True => {
            ctx.obs.label("skipped:nullable(oracle)");
            return Verdict::Pass;
        }
        _ => return Verdict::Skip("oracle-undecided"),
    }
    if oracle_lang::backref_into_loop(&m.node) {
        ctx.obs.label("skipped:backref-into-loop");
        return Verdict::Pass;
    }
    let ng = m.node.n_groups() as usize;
    let obs = match observe(Dialect::XPath, &m.pattern, &case.flags, &m.inputs, ng, None, ctx) {
        Observed::Ok(v, _) => v,
        Observed::Nullable => {
            ctx.obs.label("skipped:nullable(engine only; see C16)");
            return Verdict::Pass;
        }
        Observed::CompileErr(_) => return Verdict::Skip("compile_err"),
        Observed::Skip(r) => return Verdict::Skip(r),
        Observed::Inconsistent(_) => return Verdict::Skip("api-inconsistent(see C04)"),
    };
    let strict = strict_applicable(&m.node);
    ctx.obs.label(if strict { "clause=strict+weak" } else { "clause=weak-only" });
    let mut known_hit = None;
    for o in &obs {
        let s = chars(&o.input);
        ctx.obs.eval(1);
        if o.a_spans != o.r_spans {
            // C04's business
            continue;
        }
        // weak clause
        if let Err((symptom, expected, actual)) = weak_clause(&m.node, &s, m.flags, &o.a_spans) {
            let mut regions = vec![];
            if o.cutoff {
                regions.push("force_progress_cutoff");
            }
            if m.node.backref_to_group_in_fixed_loop() {
                regions.push("backref_to_group_in_fixed_length_loop");
            }
            if let Some(id) = ctx.known.attribute(prop, &regions, symptom) {
                known_hit = Some(id);
                continue;
            }
            return Verdict::Fail(Failure {
                sub: format!("weak:{symptom}"),
                expected,
                actual,
                detail: format!("pattern={:?} flags={:?} input={:?} cutoff={}", m.pattern, case.flags, o.input, o.cutoff),
            });
        }
        let mut multi_end = false;
        if strict {
            let bt = Bt::new(&m.node, &s, m.flags);
            let all = bt.find_all(&m.node);
            match all {
                None => {
                    ctx.obs.label("oracle=budget");
                }
                Some(ms) => {
                    let rs: Vec<(usize, usize)> = ms.iter().map(|x| (x.start, x.end)).collect();
                    if rs != o.a_spans {
                        let mut regions = vec![];
                        if o.cutoff {
                            regions.push("force_progress_cutoff");
                        }
                        if m.node.backref_to_group_in_fixed_loop() {
                            regions.push("backref_to_group_in_fixed_length_loop");
                        }
                        if let Some(id) = ctx.known.attribute(prop, &regions, "strict-span-mismatch") {
                            known_hit = Some(id);
                            continue;
                        }
                        return Verdict::Fail(Failure {
                            sub: "strict:ordered-choice-spans".into(),
                            expected: format!("{rs:?}"),
                            actual: format!("{:?}", o.a_spans),
                            detail: format!("pattern={:?} flags={:?} input={:?} cutoff={}", m.pattern, case.flags, o.input, o.cutoff),
                        });
                    }
                }
            }
        }
        // non-triviality: >= 2 candidate ends at a chosen start, or >= 2 matches, or an astral char before a match
        if let Some((a, _)) = o.a_spans.first() {
            if let Some(e) = oracle_lang::ends_from(&m.node, &s, m.flags, *a) {
                multi_end = e.len() >= 2;
            }
        }
        let astral_before = o.a_spans.iter().any(|(a, _)| s[..*a].iter().any(|c| (*c as u32) > 0xFFFF));
        if !o.a_spans.is_empty() {
            ctx.obs.label("has-match");
            if multi_end {
                ctx.obs.label("multiple-candidate-ends");
            }
            if astral_before {
                ctx.obs.label("astral-before-match");
            }
            if o.a_spans.len() >= 2 {
                ctx.obs.label("matches>=2");
            }
            if multi_end || astral_before || o.a_spans.len() >= 2 {
                ctx.obs.nontrivial(&(&m.pattern, &case.flags, &o.input));
            }
        } else {
            ctx.obs.label("no-match");
        }
    }
    ctx.obs.sample(|| case.describe(Dialect::XPath, EXTRA));
    match known_hit {
        Some(id) => Verdict::Known(id),
        None => Verdict::Pass,
    }
}

pub fn span_cfg() -> GenCfg {
    let mut cfg = GenCfg::basic(&['a', 'b', 'x', 'A', '𐐀']);
    cfg.w_empty = 0;
    cfg.w_anchor = 1;
    cfg.w_backref = 1;
    cfg
}

impl C02 {
    fn extra_selftest(&self, ctx: &mut Ctx) -> Vec<(String, Verdict, Option<AstCase>)> {
        // oracle self-test (no engine involved): R2's first match must be a member of R1's match relation and start at
        // the leftmost position where R1 has any match; where R2 finds nothing, R1 must find nothing. A disagreement
        // is a bug of the harness, not of regexml: exit 2.
        use proptest::strategy::{Strategy, ValueTree};
        use proptest::test_runner::{Config, RngSeed, TestRunner};
        let mut runner = TestRunner::new(Config { rng_seed: RngSeed::Fixed(20260), failure_persistence: None, ..Config::default() });
        let strat = (gen::node_strategy(&span_cfg()), gen::flags_strategy("ims"), gen::raw_inputs(4, 8));
        let mut agreed = 0u64;
        for _ in 0..ctx.tier.pick(4000, 40000) {
            let (node, flags, raw) = match strat.new_tree(&mut runner) {
                Ok(t) => t.current(),
                Err(_) => continue,
            };
            let case = AstCase { node, flags, inputs: Inputs::Raw(raw) };
            let m = case.materialize(Dialect::XPath, EXTRA);
            if oracle_lang::backref_into_loop(&m.node) {
                continue;
            }
            for input in &m.inputs {
                let s = chars(input);
                let bt = Bt::new(&m.node, &s, m.flags);
                let first = bt.find(&m.node, 0);
                if bt.overflowed() {
                    continue;
                }
                let l = Lang::new(&m.node, &s, m.flags);
                let mut leftmost: Option<(usize, Vec<usize>)> = None;
                for p in 0..=s.len() {
                    let e = l.ends_from(&m.node, p);
                    if !e.is_empty() {
                        leftmost = Some((p, e));
                        break;
                    }
                }
                if l.overflowed() {
                    continue;
                }
                let ok = match (&first, &leftmost) {
                    (None, None) => true,
                    (Some(mt), Some((p, ends))) => mt.start == *p && ends.contains(&mt.end),
                    _ => false,
                };
                if !ok {
                    eprintln!("harness error: oracle self-test: R1 and R2 disagree on pattern {:?} flags {:?} input {:?}: R2 {:?}, R1 leftmost {:?}", m.pattern, case.flags, input, first.map(|x| (x.start, x.end)), leftmost);
                    std::process::exit(2);
                }
                agreed += 1;
            }
        }
        ctx.obs.label(&format!("oracle-selftest:R1-R2-agreements={agreed}"));
        vec![]
    }
}

impl Prop for C02 {
    type Case = AstCase;
    fn id(&self) -> &'static str {
        "C02"
    }
    fn parts(&self, tier: Tier) -> Vec<Part<AstCase>> {
        let s = (gen::node_strategy(&span_cfg()), gen::flags_strategy("ims"), gen::raw_inputs(8, 10))
            .prop_map(|(node, flags, inputs)| AstCase { node, flags, inputs: Inputs::Raw(inputs) })
            .boxed();
        let mut sc = span_cfg();
        sc.w_empty = 0;
        vec![
            Part { name: "random".into(), strategy: s, cases: tier.pick(250_000, 5_000_000) },
            Part { name: "scaled".into(), strategy: super::c01::scaled_part(&sc, "ims"), cases: tier.pick(30_000, 400_000) },
        ]
    }
    fn enumerations(&self, tier: Tier) -> Vec<(String, String, Box<dyn Iterator<Item = AstCase> + Send>)> {
        // every small pattern over two letters, dot and a class, with every quantifier form, on every short input
        let cfg = crate::enumerate::EnumCfg {
            atoms: vec![
                Node::Lit('a'),
                Node::Lit('b'),
                Node::Dot,
                Node::Class(ClassExpr { neg: false, items: vec![Item::Char('a'), Item::Char('b')], sub: None }),
            ],
            quants: vec![(0, Some(1), true), (0, None, true), (1, None, true), (1, Some(2), true), (2, None, true), (0, Some(1), false), (0, None, false), (1, None, false), (1, Some(2), false)],
            cap: true,
            noncap: false,
            alt: true,
            backref: false,
        };
        let size = tier.pick(5, 6);
        let nodes: Vec<Node> = crate::enumerate::up_to(&cfg, size).into_iter().filter(|n| !n.possibly_empty()).collect();
        let inputs = crate::enumerate::inputs(&['a', 'b'], tier.pick(4, 5));
        let scope = format!(
            "all {} non-nullable ASTs of size <= {} over atoms {{a,b,.,[ab]}} x quantifiers {{?,*,+,{{1,2}},{{2,}},??,*?,+?,{{1,2}}?}} with groups and alternation x all {} inputs over {{a,b}} of length <= {}",
            nodes.len(),
            size,
            inputs.len(),
            tier.pick(4, 5)
        );
        let it = nodes.into_iter().map(move |node| AstCase { node, flags: String::new(), inputs: Inputs::Lit(inputs.clone()) });
        let (name, scope2, it2) = super::c01::macro_enumeration(tier);
        // spans are only defined for regexes that cannot match the empty string
        let it2 = it2.filter(|c| !c.node.possibly_empty());
        vec![("exhaustive-small".into(), scope, Box::new(it)), (name, format!("the non-nullable ones among: {scope2}"), Box::new(it2))]
    }
    fn extra(&self, ctx: &mut Ctx) -> Vec<(String, Verdict, Option<AstCase>)> {
        let mut v = self.extra_selftest(ctx);
        if v.iter().all(|x| !matches!(x.1, Verdict::Fail(_))) {
            v.extend(super::c01::lang_campaign("C02", "spans", ctx, &|case, ctx| check_spans("C02", case, ctx)));
        }
        v
    }
    fn check(&self, case: &AstCase, ctx: &mut Ctx) -> Verdict {
        check_spans("C02", case, ctx)
    }
    fn describe(&self, case: &AstCase) -> Value {
        case.describe(Dialect::XPath, EXTRA)
    }
    fn rule(&self) -> String {
        "evaluation = the match-span list of one (pattern, flags, input), observed identically through analyze, replace_all and tokenize, compared with the R2 ordered-choice reference (strict clause: no quantified possibly-empty body) and with the R1 match relation (weak clause: leftmost start, span is a member, nothing missed); non-trivial = at least one match and (>= 2 candidate ends at the first chosen start, or >= 2 matches, or a supplementary-plane character before a match); distinct = distinct (pattern, flags, input)".into()
    }
    fn guards(&self) -> Vec<Guard> {
        vec![
            Guard { label: "clause=strict+weak".into(), of: "".into(), min_fraction: 0.2 },
            Guard { label: "multiple-candidate-ends".into(), of: "has-match".into(), min_fraction: 0.1 },
            Guard { label: "astral-before-match".into(), of: "has-match".into(), min_fraction: 0.02 },
        ]
    }
    fn assumptions(&self) -> Vec<String> {
        vec!["R2 (harness/src/oracle_bt.rs) implements Perl-style ordered choice; the strict clause is only applied where Perl, PCRE, Java and JavaScript agree".into(), "patterns that back-reference a group inside a loop are skipped (capture reading ambiguous)".into()]
    }
}
