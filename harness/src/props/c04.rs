//! C04 — replace_all, tokenize and analyze partition the input consistently (pure cross-API relations).
use super::common::*;
use super::spans::*;
use crate::ast::*;
use crate::driver::*;
use crate::gen::{self, GenCfg};
use crate::proto::*;
use proptest::prelude::*;
use serde::{Deserialize, Serialize};
use serde_json::{json, Value};

pub struct C04;

#[derive(Clone, Debug, PartialEq, Eq, Hash, Serialize, Deserialize)]
pub struct Case04 {
    pub dialect: Dialect,
    pub ast: AstCase,
    /// metacharacter-free replacement
    pub rep: String,
    /// a case given as text (what the libFuzzer target finds); `ast` is then unused
    #[serde(default)]
    pub text: Option<StrCase>,
}

const EXTRA: &[char] = &['𐐀', '\u{301}'];

fn part(dialect: Dialect) -> BoxedStrategy<Case04> {
    let mut cfg = GenCfg::basic(&['a', 'b', 'c', '𐐀', '\u{301}']);
    cfg.w_empty = 0;
    if dialect == Dialect::Xsd {
        cfg.reluctant = false;
        cfg.noncap = false;
        cfg.w_backref = 0;
        cfg.w_anchor = 0;
    }
    let rep = prop::collection::vec(prop::sample::select(vec!['x', 'y', '-', '𐐀', ' ']), 0..3).prop_map(|v| v.into_iter().collect::<String>());
    (gen::node_strategy(&cfg), gen::flags_strategy("ims"), gen::raw_inputs(8, 12), rep)
        .prop_map(move |(node, flags, inputs, rep)| Case04 { dialect, ast: AstCase { node, flags, inputs: Inputs::Raw(inputs) }, rep, text: None })
        .boxed()
}

/// flag q: the replacement is literal, so spans cannot be marked; the cross-API relations that remain are checked
fn check_partition_literal(case: &Case04, ctx: &mut Ctx) -> Verdict {
    let m = case.ast.materialize(Dialect::XPath, EXTRA);
    // the literal: the letters of the generated pattern's alphabet (so that inputs contain it)
    let lit: String = m.node.alphabet().into_iter().filter(|c| c.is_alphanumeric()).take(2).collect();
    if lit.is_empty() {
        return Verdict::Skip("no-literal");
    }
    let mut inputs = m.inputs.clone();
    inputs.push(String::new());
    inputs.push(format!("{lit}z{}{lit}", lit.to_uppercase()));
    let mut job = Job::new(Dialect::XPath, &lit, &case.ast.flags);
    job.inputs = inputs.clone();
    job.replacements = vec![case.rep.clone()];
    let out = match ctx.w.run(&job) {
        JobResult::Done(o) => o,
        JobResult::Hang => return Verdict::Skip("hang"),
        JobResult::Died(_) => return Verdict::Skip("died"),
    };
    if out.compile.ok().is_none() {
        return Verdict::Skip("compile_err");
    }
    ctx.obs.label("dialect=xpath,flag-q");
    for (i, input) in inputs.iter().enumerate() {
        let io = &out.per_input[i];
        let (rep, tok, ana) = match (&io.replace[0], io.tokens.as_ref().unwrap(), io.analyze.as_ref().unwrap()) {
            (Res::Ok(r), Res::Ok(t), Res::Ok(a)) if t.panic.is_none() && a.panic.is_none() && !t.capped && !a.capped => (r, t, a),
            _ => return Verdict::Skip("panic-or-error"),
        };
        ctx.obs.eval(3);
        let fail = |sub: &str, expected: String, actual: String| {
            Verdict::Fail(Failure { sub: sub.into(), expected, actual, detail: format!("literal pattern={lit:?} flags={:?} input={input:?} rep={:?}", case.ast.flags, case.rep) })
        };
        if analyze_text(&ana.items) != *input {
            return fail("analyze-concat", format!("{input:?}"), format!("{:?}", analyze_text(&ana.items)));
        }
        let cs = chars(input);
        let spans = analyze_spans(&ana.items);
        let mut expect_tokens: Vec<String> = vec![];
        if !cs.is_empty() {
            let mut p = 0;
            for (s, e) in &spans {
                expect_tokens.push(cs[p..*s].iter().collect());
                p = *e;
            }
            expect_tokens.push(cs[p..].iter().collect());
        }
        if tok.items != expect_tokens {
            return fail("tokens-vs-analyze", format!("{expect_tokens:?}"), format!("{:?}", tok.items));
        }
        let joined = if cs.is_empty() { String::new() } else { expect_tokens.join(&case.rep) };
        if *rep != joined {
            return fail("replace-plain-vs-tokens", format!("{joined:?}"), format!("{rep:?}"));
        }
        if spans.len() >= 2 {
            ctx.obs.nontrivial(&(&lit, &case.ast.flags, input));
        }
    }
    Verdict::Pass
}

pub fn check_partition(case: &Case04, ctx: &mut Ctx) -> Verdict {
    if let Some(t) = &case.text {
        if t.flags.contains('q') || t.flags.chars().any(|c| !"smix".contains(c)) {
            return Verdict::Skip("text-case-with-q-or-invalid-flags");
        }
        return partition_relations(t.dialect, &t.pattern, &t.flags, &t.inputs, "-", ctx);
    }
    if case.ast.flags.contains('q') {
        return check_partition_literal(case, ctx);
    }
    let m = case.ast.materialize(case.dialect, EXTRA);
    let v = partition_relations(case.dialect, &m.pattern, &case.ast.flags, &m.inputs, &case.rep, ctx);
    if matches!(v, Verdict::Pass) {
        ctx.obs.sample(|| json!({"dialect": format!("{:?}", case.dialect), "pattern": m.pattern, "flags": case.ast.flags, "inputs": m.inputs, "rep": case.rep}));
    }
    v
}

/// the relations themselves, on a pattern given as text (also used to re-judge what the libFuzzer target `rel` finds)
pub fn partition_relations(dialect: Dialect, pattern: &str, flags: &str, gen_inputs: &[String], rep: &str, ctx: &mut Ctx) -> Verdict {
    // forced inputs: empty, and the generated ones
    let mut inputs = gen_inputs.to_vec();
    inputs.push(String::new());
    let obs = match observe(dialect, pattern, flags, &inputs, 0, Some(rep), ctx) {
        Observed::Ok(v, _) => v,
        Observed::Nullable => {
            ctx.obs.label("nullable(engine)");
            return Verdict::Pass;
        }
        Observed::CompileErr(_) => return Verdict::Skip("compile_err"),
        Observed::Skip(r) => return Verdict::Skip(r),
        Observed::Inconsistent(what) => {
            return Verdict::Fail(Failure { sub: "api-agreement".into(), expected: "all three APIs accept or all reject".into(), actual: what, detail: format!("pattern={:?} flags={:?}", pattern, flags) })
        }
    };
    ctx.obs.label(if dialect == Dialect::Xsd { "dialect=xsd" } else { "dialect=xpath" });
    for o in &obs {
        ctx.obs.eval(4);
        let cs = chars(&o.input);
        let fail = |sub: &str, expected: String, actual: String| {
            Verdict::Fail(Failure { sub: sub.into(), expected, actual, detail: format!("pattern={:?} flags={:?} input={:?} rep={:?}", pattern, flags, o.input, rep) })
        };
        // 1. concatenation of analyze entries = input
        let t = analyze_text(&o.entries);
        if t != o.input {
            return fail("analyze-concat", format!("{:?}", o.input), format!("{t:?}"));
        }
        // 2. NonMatch entries non-empty, never adjacent
        let mut prev_non = false;
        for e in &o.entries {
            match e {
                AEntry::NonMatch(s) => {
                    if s.is_empty() {
                        return fail("analyze-empty-nonmatch", "non-empty NonMatch".into(), format!("{:?}", o.entries));
                    }
                    if prev_non {
                        return fail("analyze-adjacent-nonmatch", "merged NonMatch".into(), format!("{:?}", o.entries));
                    }
                    prev_non = true;
                }
                AEntry::Match(_) => prev_non = false,
            }
        }
        // spans ascending, non-overlapping, non-empty
        let mut p = 0;
        for (s, e) in &o.a_spans {
            if *s < p || e <= s || *e > o.n {
                return fail("span-order", "ascending non-overlapping non-empty spans".into(), format!("{:?}", o.a_spans));
            }
            p = *e;
        }
        // 3. tokens = pieces between consecutive matches
        let mut expect_tokens: Vec<String> = vec![];
        if !cs.is_empty() {
            let mut p = 0;
            for (s, e) in &o.a_spans {
                expect_tokens.push(cs[p..*s].iter().collect());
                p = *e;
            }
            expect_tokens.push(cs[p..].iter().collect());
        }
        if o.tokens != expect_tokens {
            return fail("tokens-vs-analyze", format!("{expect_tokens:?}"), format!("{:?}", o.tokens));
        }
        // 4. spans from replace_all($0 markers) identical, text reproduced
        if o.r_spans != o.a_spans {
            return fail("replace-spans-vs-analyze", format!("{:?}", o.a_spans), format!("{:?}", o.r_spans));
        }
        // 5. replace with plain R = tokens joined by R
        if let Some(rp) = &o.replaced_plain {
            let joined = if cs.is_empty() { String::new() } else { expect_tokens.join(rep) };
            if *rp != joined {
                return fail("replace-plain-vs-tokens", format!("{joined:?}"), format!("{rp:?}"));
            }
        }
        // is_match agrees with "at least one span" (for a regex that cannot match empty)
        if o.is_match != !o.a_spans.is_empty() {
            return fail("is_match-vs-spans", format!("is_match={}", !o.a_spans.is_empty()), format!("is_match={}", o.is_match));
        }
        let k = o.a_spans.len();
        if k >= 2 {
            ctx.obs.label("matches>=2");
        }
        if k >= 1 && o.a_spans[0].0 == 0 {
            ctx.obs.label("match-at-0");
        }
        if k >= 1 && o.a_spans[k - 1].1 == o.n {
            ctx.obs.label("match-at-end");
        }
        if o.a_spans.windows(2).any(|w| w[0].1 == w[1].0) {
            ctx.obs.label("adjacent-matches");
        }
        if k == 0 && o.n > 0 {
            ctx.obs.label("no-match");
        }
        if o.input.contains('𐐀') && k >= 1 {
            ctx.obs.label("astral-with-match");
        }
        if k >= 2 || (k >= 1 && (o.a_spans[0].0 == 0 || o.a_spans[k - 1].1 == o.n)) {
            ctx.obs.nontrivial(&(&pattern, &flags, &o.input, dialect));
        }
    }
    Verdict::Pass
}

impl Prop for C04 {
    type Case = Case04;
    fn id(&self) -> &'static str {
        "C04"
    }
    fn parts(&self, tier: Tier) -> Vec<Part<Case04>> {
        let q = part(Dialect::XPath)
            .prop_flat_map(|c| (Just(c), prop::sample::select(vec!["q", "qi", "iq", "qis", "qx"])))
            .prop_map(|(mut c, f)| {
                c.ast.flags = f.to_string();
                c
            })
            .boxed();
        vec![
            Part { name: "literal-flag-q".into(), strategy: q, cases: tier.pick(30_000, 300_000) },
            Part { name: "xpath".into(), strategy: part(Dialect::XPath), cases: tier.pick(150_000, 3_000_000) },
            Part { name: "xsd".into(), strategy: part(Dialect::Xsd), cases: tier.pick(50_000, 1_000_000) },
            Part {
                name: "scaled".into(),
                strategy: super::c01::scaled_part(&{
                    let mut c = GenCfg::basic(&['a', 'b', 'c', '𐐀']);
                    c.w_empty = 0;
                    c
                }, "ims")
                .prop_map(|ast| Case04 { dialect: Dialect::XPath, ast, rep: "-".into(), text: None })
                .boxed(),
                cases: tier.pick(30_000, 400_000),
            },
        ]
    }
    fn enumerations(&self, tier: Tier) -> Vec<(String, String, Box<dyn Iterator<Item = Case04> + Send>)> {
        // the cross-API relations on every pattern of the two finite scopes of C01 that the engine accepts as non-nullable
        let (name, scope, it) = super::c01::macro_enumeration(tier);
        let it = it.map(|mut ast| {
            if let Inputs::Lit(v) = &mut ast.inputs {
                v.retain(|s| s.chars().count() <= 4);
            }
            Case04 { dialect: Dialect::XPath, ast, rep: "-".into(), text: None }
        });
        let size = tier.pick(3, 4);
        let nodes = crate::enumerate::up_to(&super::c01::enum_cfg(), size);
        let inputs = crate::enumerate::inputs(&['a', 'b', '\n'], 3);
        let scope2 = format!("all {} ASTs of size <= {} over the atoms and quantifiers of C01's first scope x flags {{'', m, s, i}} x all {} inputs over {{a,b,LF}} of length <= 3", nodes.len(), size, inputs.len());
        let it2 = nodes.into_iter().flat_map(move |node| {
            let inputs = inputs.clone();
            ["", "m", "s", "i"].into_iter().map(move |f| Case04 { dialect: Dialect::XPath, ast: AstCase { node: node.clone(), flags: f.to_string(), inputs: Inputs::Lit(inputs.clone()) }, rep: "-".into(), text: None })
        });
        vec![(name, format!("{scope} (inputs of length <= 4 only)"), Box::new(it)), ("exhaustive-small".into(), scope2, Box::new(it2))]
    }
    fn extra(&self, ctx: &mut Ctx) -> Vec<(String, Verdict, Option<Case04>)> {
        // thorough tier: coverage-guided search with the relations as oracle inside the libFuzzer target `rel`
        if ctx.tier != Tier::Thorough {
            return vec![];
        }
        let seed = std::env::var("VERIF_SEED").ok().and_then(|s| s.parse().ok()).unwrap_or(0u64);
        let c = crate::fuzzrun::Campaign { name: "C04", target: "rel", hooks: true, runs_per_job: 400_000, jobs: 12, timeout_s: 25, seed: seed + 404 };
        match crate::fuzzrun::run(&c, &[]) {
            Err(e) => {
                eprintln!("harness error: fuzz campaign: {e}");
                std::process::exit(2)
            }
            Ok((found, execs)) => {
                ctx.obs.label(&format!("libfuzzer:executions={execs}"));
                ctx.obs.label(&format!("libfuzzer:artifacts={}", found.len()));
                ctx.obs.eval(execs);
                for f in found {
                    let case = Case04 { dialect: f.case.dialect, ast: AstCase { node: Node::Empty, flags: String::new(), inputs: Inputs::Lit(vec![]) }, rep: "-".into(), text: Some(f.case.clone()) };
                    match check_partition(&case, ctx) {
                        Verdict::Fail(fl) => {
                            return vec![(format!("libfuzzer-{}", f.kind), Verdict::Fail(Failure { detail: format!("{} (candidate found by libFuzzer, re-judged through the worker)", fl.detail), ..fl }), Some(case))];
                        }
                        _ => {
                            println!("note: libFuzzer artifact ({}) did not fail when re-judged through the worker: {}", f.kind, f.case.describe());
                            ctx.obs.label(&format!("libfuzzer:artifact-not-confirmed:{}", f.kind));
                        }
                    }
                }
                vec![]
            }
        }
    }
    fn check(&self, case: &Case04, ctx: &mut Ctx) -> Verdict {
        check_partition(case, ctx)
    }
    fn describe(&self, case: &Case04) -> Value {
        if let Some(t) = &case.text {
            return t.describe();
        }
        let m = case.ast.materialize(case.dialect, EXTRA);
        json!({"dialect": format!("{:?}", case.dialect), "pattern": m.pattern, "flags": case.ast.flags, "inputs": m.inputs, "rep": case.rep})
    }
    fn rule(&self) -> String {
        "evaluation = one API call whose result enters the cross-API relations (analyze concat = input; NonMatch non-empty and merged; tokens = pieces between analyze matches; replace_all with $0 markers gives the same spans; replace_all(R) = tokens joined by R; is_match iff a span exists); non-trivial = >= 2 matches or a match touching an edge of the input; distinct = distinct (dialect, pattern, flags, input)".into()
    }
    fn guards(&self) -> Vec<Guard> {
        vec![
            Guard { label: "adjacent-matches".into(), of: "".into(), min_fraction: 0.05 },
            Guard { label: "astral-with-match".into(), of: "".into(), min_fraction: 0.05 },
            Guard { label: "no-match".into(), of: "".into(), min_fraction: 0.05 },
        ]
    }
    fn assumptions(&self) -> Vec<String> {
        vec!["patterns the engine itself reports as matching the empty string are outside this property (C16 decides whether that report is right)".into()]
    }
}
