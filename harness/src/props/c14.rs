//! C14 — flag x ignores pattern whitespace outside character classes (equivalence by construction).
use super::c08::diff_outcomes;
use super::common::*;
use crate::ast::*;
use crate::driver::*;
use crate::gen::{self, GenCfg};
use crate::proto::*;
use proptest::prelude::*;
use serde::{Deserialize, Serialize};
use serde_json::{json, Value};

pub struct C14;

#[derive(Clone, Debug, PartialEq, Eq, Hash, Serialize, Deserialize)]
pub enum Case14 {
    /// whitespace runs inserted at gaps outside classes: (gap selector, which of TAB LF CR SPACE, run length 1-2)
    Outside { ast: AstCase, gaps: Vec<(u16, u8, u8)> },
    /// whitespace inside class expressions (raw), pattern compared with and without x
    Inside { ast: AstCase },
    /// characters that are not XML whitespace (VT, FF, NEL, NBSP, LS) as literals, compared with and without x
    Other { ast: AstCase },
    /// an invalid pattern (no '[' in it) with whitespace inserted must still be rejected under x
    Invalid { which: u16, gaps: Vec<(u16, u8, u8)> },
    /// whitespace inside a class expression is kept under x: a pattern that is invalid because of it stays invalid
    InvalidInside { which: u16, ws: u8 },
}

const WS: [char; 4] = ['\t', '\n', '\r', ' '];
const NOT_WS: [char; 5] = ['\u{B}', '\u{C}', '\u{85}', '\u{A0}', '\u{2028}'];

/// class nesting depth at every gap of a valid rendered pattern (gap i is before character i)
pub fn gap_depths(p: &[char]) -> Vec<u32> {
    let mut d = Vec::with_capacity(p.len() + 1);
    let mut depth = 0u32;
    let mut escaped = false;
    for c in p {
        d.push(depth);
        if escaped {
            escaped = false;
        } else {
            match c {
                '\\' => escaped = true,
                '[' => depth += 1,
                ']' => depth = depth.saturating_sub(1),
                _ => {}
            }
        }
    }
    d.push(depth);
    // a gap directly after an unescaped '[' that opened a class is inside it; the loop above records the depth before
    // each character, so the gap before the character following '[' already has the increased depth
    d
}

pub fn insert_ws(p: &str, gaps: &[(u16, u8, u8)]) -> (String, Vec<usize>) {
    let cs: Vec<char> = p.chars().collect();
    let depths = gap_depths(&cs);
    let outside: Vec<usize> = (0..=cs.len()).filter(|i| depths[*i] == 0).collect();
    let mut at: Vec<(usize, String)> = vec![];
    for (sel, which, n) in gaps {
        if outside.is_empty() {
            break;
        }
        let g = outside[((*sel as usize) * outside.len()) >> 16];
        let run: String = (0..(1 + (*n % 2))).map(|k| WS[((*which as usize) + k as usize) % 4]).collect();
        at.push((g, run));
    }
    at.sort();
    let mut out = String::new();
    let mut positions = vec![];
    let mut k = 0;
    for i in 0..=cs.len() {
        while k < at.len() && at[k].0 == i {
            out.push_str(&at[k].1);
            positions.push(i);
            k += 1;
        }
        if i < cs.len() {
            out.push(cs[i]);
        }
    }
    (out, positions)
}

fn run_both(pa: &str, fa: &str, pb: &str, fb: &str, inputs: &[String], ctx: &mut Ctx) -> Result<(Outcome, Outcome), Verdict> {
    let mut ja = Job::new(Dialect::XPath, pa, fa);
    ja.inputs = inputs.to_vec();
    ja.replacements = vec!["[$0]".into()];
    let mut jb = ja.clone();
    jb.pattern = pb.to_string();
    jb.flags = fb.to_string();
    match (ctx.w.run(&ja), ctx.w.run(&jb)) {
        (JobResult::Done(a), JobResult::Done(b)) => {
            if super::c05::bad_in_outcome(&a).is_some() || super::c05::bad_in_outcome(&b).is_some() {
                return Err(Verdict::Skip("panic"));
            }
            Ok((a, b))
        }
        (JobResult::Hang, _) | (_, JobResult::Hang) => Err(Verdict::Skip("hang")),
        _ => Err(Verdict::Skip("died")),
    }
}

fn invalid_pool() -> Vec<String> {
    // a subset of C07's curated invalid patterns without '[' (whitespace inside a class would change it)
    let v = [
        "a**", "a+*", "a{2}{3}", "a?+", "a*??", "a{3,2}", "a{,2}", "a{", "a{2", "a{2,", "a{x}", "\\q", "a\\eb", "\\", "a\\", "\\p{Cs}", "\\p{IsNope}", "\\p{Lx}", "(", ")", "a(", "(a", "a)b", "((a)", "(?:a", "*", "+a",
        "a|*b", "a(*b)", "(?=a)", "(?i)a", "}", "a}", "\\1", "(a)\\2", "(a\\1)", "\\0", "(a)(b\\2)", "a{1,0}b", "(?<n>a)",
    ];
    v.iter().map(|s| s.to_string()).collect()
}

const INVALID_INSIDE: &[&str] = &["[a-z-[aeiou]@]", "[a-[b]@]+", "x[\\p{L}-[\\p{Lu}]@]y", "([a-c-[b]@])\\1", "[a-[b]@c]", "[^a-[b-[c]@]]", "[a-[b]]@]"];

fn check(case: &Case14, ctx: &mut Ctx) -> Verdict {
    match case {
        Case14::InvalidInside { which, ws } => {
            let t = INVALID_INSIDE[((*which as usize) * INVALID_INSIDE.len()) >> 16];
            let p = t.replace('@', &WS[*ws as usize % 4].to_string());
            ctx.obs.label("part:invalid-inside-class");
            for flags in ["x", ""] {
                let mut job = Job::new(Dialect::XPath, &p, flags);
                job.apis = 0;
                let out = match ctx.w.run(&job) {
                    JobResult::Done(o) => o,
                    _ => return Verdict::Skip("hang"),
                };
                ctx.obs.eval(1);
                match &out.compile {
                    Res::Err(ErrKind::Syntax) => {}
                    Res::Panic(_) => return Verdict::Skip("panic"),
                    other => {
                        return Verdict::Fail(Failure { sub: "invalid-inside-class".into(), expected: "Err(Syntax): whitespace inside a class expression is not removed, and nothing may follow a subtraction".into(), actual: format!("{:?}", other.err().map(|e| format!("{e:?}")).unwrap_or("accepted".into())), detail: format!("pattern={p:?} flags={flags:?}") })
                    }
                }
            }
            ctx.obs.nontrivial(&p);
            Verdict::Pass
        }
        Case14::Outside { ast, gaps } => {
            let m = ast.materialize(Dialect::XPath, &[' ', '\t']);
            let (pws, positions) = insert_ws(&m.pattern, gaps);
            if positions.is_empty() {
                return Verdict::Skip("no-gap");
            }
            ctx.obs.label("part:outside");
            let fx = format!("{}x", ast.flags);
            let (a, b) = match run_both(&pws, &fx, &m.pattern, &ast.flags, &m.inputs, ctx) {
                Ok(x) => x,
                Err(v) => return v,
            };
            ctx.obs.eval(2 * (1 + 4 * m.inputs.len() as u64));
            if a.compile.ok().is_none() && b.compile.ok().is_none() {
                ctx.obs.label("both-rejected");
            }
            let pc: Vec<char> = m.pattern.chars().collect();
            let adjacent = positions.iter().any(|i| {
                let prev = if *i > 0 { pc.get(*i - 1) } else { None };
                let next = pc.get(*i);
                [prev, next].iter().flatten().any(|c| "\\[]{}()?*+|,:".contains(**c)) || (prev.map_or(false, |c| c.is_ascii_alphanumeric()) && next.map_or(false, |c| *c == '}' || c.is_ascii_digit()))
            });
            let inside_token = positions.iter().any(|i| *i > 0 && matches!(pc.get(*i - 1), Some('\\') | Some('{') | Some(',')) || matches!((pc.get(i.wrapping_sub(1)), pc.get(*i)), (Some('('), Some('?')) | (Some('?'), Some(':')) | (Some('p'), Some('{')) | (Some('P'), Some('{'))));
            if adjacent {
                ctx.obs.label("ws-next-to-token");
                ctx.obs.nontrivial(&(&pws, &ast.flags));
            }
            if inside_token {
                ctx.obs.label("ws-inside-multichar-token");
            }
            if let Some(d) = diff_outcomes(&a, &b, &m.inputs) {
                let d = d.replace("optimised", "with-whitespace+x").replace("unoptimised", "original");
                return Verdict::Fail(Failure { sub: "ws-outside-class".into(), expected: "pattern with whitespace under x behaves like the pattern without it".into(), actual: d, detail: format!("with_ws={pws:?} flags={fx:?} original={:?} flags={:?}", m.pattern, ast.flags) });
            }
            ctx.obs.sample(|| json!({"with_whitespace": pws, "original": m.pattern, "flags": ast.flags, "inputs": m.inputs}));
            Verdict::Pass
        }
        Case14::Inside { ast } => {
            let m = ast.materialize(Dialect::XPath, &[' ', '\t', '\n', '\r']);
            // make the whitespace inside classes raw: \t \n \r escapes inside brackets become the characters themselves
            let cs: Vec<char> = m.pattern.chars().collect();
            let depths = gap_depths(&cs);
            let mut p = String::new();
            let mut i = 0;
            let mut raw_inside = 0;
            while i < cs.len() {
                if cs[i] == '\\' && i + 1 < cs.len() {
                    if depths[i] > 0 && matches!(cs[i + 1], 'n' | 'r' | 't') {
                        p.push(match cs[i + 1] {
                            'n' => '\n',
                            'r' => '\r',
                            _ => '\t',
                        });
                        raw_inside += 1;
                    } else {
                        p.push(cs[i]);
                        p.push(cs[i + 1]);
                    }
                    i += 2;
                    continue;
                }
                if depths[i] > 0 && cs[i] == ' ' {
                    raw_inside += 1;
                }
                if depths[i] == 0 && cs[i] == ' ' {
                    // a raw space outside a class would be stripped: not part of this sub-check
                    return Verdict::Skip("raw-space-outside");
                }
                p.push(cs[i]);
                i += 1;
            }
            if raw_inside == 0 {
                return Verdict::Skip("no-ws-in-class");
            }
            ctx.obs.label("part:inside");
            let fx = format!("{}x", ast.flags);
            let (a, b) = match run_both(&p, &fx, &p, &ast.flags, &m.inputs, ctx) {
                Ok(x) => x,
                Err(v) => return v,
            };
            ctx.obs.eval(2 * (1 + 4 * m.inputs.len() as u64));
            ctx.obs.nontrivial(&(&p, &ast.flags));
            if let Some(d) = diff_outcomes(&a, &b, &m.inputs) {
                let d = d.replace("optimised", "with-x").replace("unoptimised", "without-x");
                return Verdict::Fail(Failure { sub: "ws-inside-class".into(), expected: "whitespace inside [...] is kept under x".into(), actual: d, detail: format!("pattern={p:?} flags={:?}", ast.flags) });
            }
            ctx.obs.sample(|| json!({"pattern": p, "flags": ast.flags, "inputs": m.inputs}));
            Verdict::Pass
        }
        Case14::Other { ast } => {
            let m = ast.materialize(Dialect::XPath, &NOT_WS);
            if !m.pattern.chars().any(|c| NOT_WS.contains(&c)) {
                return Verdict::Skip("no-such-char");
            }
            if m.pattern.contains(' ') {
                return Verdict::Skip("raw-space-outside");
            }
            ctx.obs.label("part:non-whitespace");
            let fx = format!("{}x", ast.flags);
            let (a, b) = match run_both(&m.pattern, &fx, &m.pattern, &ast.flags, &m.inputs, ctx) {
                Ok(x) => x,
                Err(v) => return v,
            };
            ctx.obs.eval(2 * (1 + 4 * m.inputs.len() as u64));
            ctx.obs.nontrivial(&(&m.pattern, &ast.flags));
            if let Some(d) = diff_outcomes(&a, &b, &m.inputs) {
                let d = d.replace("optimised", "with-x").replace("unoptimised", "without-x");
                return Verdict::Fail(Failure { sub: "non-whitespace-removed".into(), expected: "characters other than TAB, LF, CR, SPACE are never removed".into(), actual: d, detail: format!("pattern={:?} flags={:?}", m.pattern, ast.flags) });
            }
            Verdict::Pass
        }
        Case14::Invalid { which, gaps } => {
            let pool = invalid_pool();
            let p = &pool[((*which as usize) * pool.len()) >> 16];
            let (pws, _) = insert_ws(p, gaps);
            ctx.obs.label("part:invalid");
            let mut job = Job::new(Dialect::XPath, &pws, "x");
            job.apis = 0;
            let out = match ctx.w.run(&job) {
                JobResult::Done(o) => o,
                _ => return Verdict::Skip("hang"),
            };
            ctx.obs.eval(1);
            match &out.compile {
                Res::Err(ErrKind::Syntax) => Verdict::Pass,
                Res::Panic(_) => Verdict::Skip("panic"),
                other => Verdict::Fail(Failure { sub: "invalid-with-ws".into(), expected: "Err(Syntax): the pattern with the whitespace deleted is invalid".into(), actual: format!("{:?}", other.err().map(|e| format!("{e:?}")).unwrap_or("accepted".into())), detail: format!("pattern={pws:?} (from {p:?}) flags=x") }),
            }
        }
    }
}

impl Prop for C14 {
    type Case = Case14;
    fn id(&self) -> &'static str {
        "C14"
    }
    fn parts(&self, tier: Tier) -> Vec<Part<Case14>> {
        let mut cfg = GenCfg::basic(&['a', 'b', '1', '-', '[', ']', '\\', '{', '(']);
        cfg.w_esc = 4;
        cfg.w_class = 4;
        cfg.class.chars = vec!['a', 'b', ']', '[', '\\', '-', '1'];
        cfg.class.sub_depth = 1;
        let gaps = prop::collection::vec((any::<u16>(), 0u8..4, 0u8..2), 1..5);
        let s1 = (gen::node_strategy(&cfg), gen::flags_strategy("smi"), gen::raw_inputs(8, 7), gaps.clone())
            .prop_map(|(node, flags, inputs, gaps)| Case14::Outside { ast: AstCase { node, flags, inputs: Inputs::Raw(inputs) }, gaps })
            .boxed();
        let mut cfg2 = cfg.clone();
        cfg2.w_class = 12;
        cfg2.class.chars = vec!['a', ' ', '\t', '\n', '\r', 'b', ']'];
        cfg2.lits = vec!['a', 'b'];
        let s2 = (gen::node_strategy(&cfg2), gen::flags_strategy("smi"), gen::raw_inputs(8, 7))
            .prop_map(|(node, flags, inputs)| Case14::Inside { ast: AstCase { node, flags, inputs: Inputs::Raw(inputs) } })
            .boxed();
        let mut cfg3 = GenCfg::basic(&['a', '\u{B}', '\u{C}', '\u{85}', '\u{A0}', '\u{2028}', 'b']);
        cfg3.w_class = 0;
        cfg3.w_esc = 1;
        let s3 = (gen::node_strategy(&cfg3), gen::flags_strategy("smi"), gen::raw_inputs(8, 7))
            .prop_map(|(node, flags, inputs)| Case14::Other { ast: AstCase { node, flags, inputs: Inputs::Raw(inputs) } })
            .boxed();
        let s4 = (any::<u16>(), gaps).prop_map(|(which, gaps)| Case14::Invalid { which, gaps }).boxed();
        vec![
            Part { name: "whitespace-outside-classes".into(), strategy: s1, cases: tier.pick(200_000, 4_000_000) },
            Part { name: "whitespace-inside-classes".into(), strategy: s2, cases: tier.pick(60_000, 1_000_000) },
            Part { name: "non-whitespace-characters".into(), strategy: s3, cases: tier.pick(40_000, 500_000) },
            Part { name: "invalid-with-whitespace".into(), strategy: s4, cases: tier.pick(40_000, 500_000) },
            Part { name: "invalid-inside-class".into(), strategy: (any::<u16>(), 0u8..4).prop_map(|(which, ws)| Case14::InvalidInside { which, ws }).boxed(), cases: tier.pick(2_000, 10_000) },
        ]
    }
    fn check(&self, case: &Case14, ctx: &mut Ctx) -> Verdict {
        check(case, ctx)
    }
    fn describe(&self, case: &Case14) -> Value {
        match case {
            Case14::Outside { ast, gaps } => {
                let m = ast.materialize(Dialect::XPath, &[' ', '\t']);
                json!({"original": m.pattern, "with_whitespace": insert_ws(&m.pattern, gaps).0, "flags": ast.flags, "inputs": m.inputs})
            }
            Case14::Inside { ast } => ast.describe(Dialect::XPath, &[' ', '\t', '\n', '\r']),
            Case14::Other { ast } => ast.describe(Dialect::XPath, &NOT_WS),
            Case14::Invalid { which, gaps } => {
                let pool = invalid_pool();
                let p = &pool[((*which as usize) * pool.len()) >> 16];
                json!({"invalid": p, "with_whitespace": insert_ws(p, gaps).0})
            }
            Case14::InvalidInside { which, ws } => json!({"template": INVALID_INSIDE[((*which as usize) * INVALID_INSIDE.len()) >> 16], "ws": ws}),
        }
    }
    fn rule(&self) -> String {
        "evaluation = one API call compared between two (pattern, flags) pairs that must be equivalent by construction: (valid pattern with runs of TAB/LF/CR/SPACE inserted at arbitrary character gaps outside class expressions — also inside multi-character tokens — under x) vs (the pattern, without x); (pattern with raw whitespace inside [...]) with vs without x; (pattern with VT, FF, NEL, NBSP, LS literals) with vs without x; curated invalid patterns with whitespace inserted must stay rejected; non-trivial = an inserted run touches an escape, bracket, brace, parenthesis, quantifier or comma; distinct = distinct (pattern with whitespace, flags)".into()
    }
    fn guards(&self) -> Vec<Guard> {
        vec![
            Guard { label: "ws-next-to-token".into(), of: "part:outside".into(), min_fraction: 0.4 },
            Guard { label: "ws-inside-multichar-token".into(), of: "part:outside".into(), min_fraction: 0.1 },
            Guard { label: "part:inside".into(), of: "".into(), min_fraction: 0.03 },
            Guard { label: "part:non-whitespace".into(), of: "".into(), min_fraction: 0.03 },
        ]
    }
}
