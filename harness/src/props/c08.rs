//! C08 — compile-time optimisations never change any result (differential through the verification hook).
use super::common::*;
use crate::ast::*;
use crate::driver::*;
use crate::gen::{self, GenCfg};
use crate::proto::*;
use proptest::prelude::*;
use serde::{Deserialize, Serialize};
use serde_json::{json, Value};

pub struct C08;

#[derive(Clone, Debug, PartialEq, Eq, Hash, Serialize, Deserialize)]
pub struct Case08 {
    pub ast: AstCase,
    pub rep: String,
    /// a case given as text (what the libFuzzer target finds); `ast` is then unused
    #[serde(default)]
    pub text: Option<StrCase>,
}

fn cmp_iter<T: PartialEq + std::fmt::Debug>(a: &Option<Res<IterOut<T>>>, b: &Option<Res<IterOut<T>>>) -> bool {
    a == b
}

/// first difference between two outcomes, ignoring hook counters and facts
pub fn diff_outcomes(a: &Outcome, b: &Outcome, inputs: &[String]) -> Option<String> {
    let ka = match &a.compile {
        Res::Ok(_) => None,
        Res::Err(k) => Some(format!("{k:?}")),
        Res::Panic(_) => Some("panic".into()),
    };
    let kb = match &b.compile {
        Res::Ok(_) => None,
        Res::Err(k) => Some(format!("{k:?}")),
        Res::Panic(_) => Some("panic".into()),
    };
    if ka != kb {
        return Some(format!("compile: optimised {ka:?} vs unoptimised {kb:?}"));
    }
    for (i, (x, y)) in a.per_input.iter().zip(b.per_input.iter()).enumerate() {
        if x.is_match != y.is_match {
            return Some(format!("is_match({:?}): optimised {:?} vs unoptimised {:?}", inputs[i], x.is_match, y.is_match));
        }
        if x.replace != y.replace {
            return Some(format!("replace_all({:?}): optimised {:?} vs unoptimised {:?}", inputs[i], x.replace, y.replace));
        }
        if !cmp_iter(&x.tokens, &y.tokens) {
            return Some(format!("tokenize({:?}): optimised {:?} vs unoptimised {:?}", inputs[i], x.tokens, y.tokens));
        }
        if !cmp_iter(&x.analyze, &y.analyze) {
            return Some(format!("analyze({:?}): optimised {:?} vs unoptimised {:?}", inputs[i], x.analyze, y.analyze));
        }
    }
    None
}

fn any_bad(o: &Outcome) -> bool {
    super::c05::bad_in_outcome(o).is_some()
}

pub fn check_opt(case: &Case08, ctx: &mut Ctx) -> Verdict {
    if let Some(t) = &case.text {
        return check_opt_str(t, ctx);
    }
    let m = case.ast.materialize(Dialect::XPath, &[]);
    let mut job = Job::new(Dialect::XPath, &m.pattern, &case.ast.flags);
    job.inputs = m.inputs.clone();
    job.replacements = vec![case.rep.clone()];
    let ra = ctx.w.run(&job);
    job.no_opt = true;
    let rb = ctx.w.run(&job);
    let (a, b) = match (&ra, &rb) {
        (JobResult::Done(a), JobResult::Done(b)) => (a, b),
        (JobResult::Hang, _) | (_, JobResult::Hang) => return Verdict::Skip("hang"),
        _ => return Verdict::Skip("died"),
    };
    if any_bad(a) || any_bad(b) {
        return Verdict::Skip("panic");
    }
    let facts = match &a.compile {
        Res::Ok(f) => f.clone(),
        _ => Facts::default(),
    };
    if a.compile.ok().is_none() && b.compile.ok().is_none() {
        ctx.obs.label("compile=err(both)");
    }
    ctx.obs.eval(2 * (1 + 4 * m.inputs.len() as u64));
    let labels = facts_labels(&facts);
    for l in &labels {
        ctx.obs.label(l);
    }
    if !labels.is_empty() {
        ctx.obs.label("any-shortcut");
        for input in &m.inputs {
            ctx.obs.nontrivial(&(&m.pattern, &case.ast.flags, input));
        }
    }
    if let Res::Ok(fb) = &b.compile {
        if !facts_labels(fb).is_empty() {
            return Verdict::Fail(Failure { sub: "hook".into(), expected: "no shortcuts on the unoptimised side".into(), actual: format!("{fb:?}"), detail: m.pattern.clone() });
        }
    }
    if let Some(d) = diff_outcomes(a, b, &m.inputs) {
        let cut = a.compile_cutoffs > 0 || b.compile_cutoffs > 0 || a.per_input.iter().any(|x| x.any_cutoff()) || b.per_input.iter().any(|x| x.any_cutoff());
        let mut regions = vec![];
        if cut {
            regions.push("force_progress_cutoff");
        }
        if let Some(id) = ctx.known.attribute("C08", &regions, "results-differ") {
            return Verdict::Known(id);
        }
        return Verdict::Fail(Failure {
            sub: "optimised-vs-unoptimised".into(),
            expected: "identical results from both compilations".into(),
            actual: d,
            detail: format!("pattern={:?} flags={:?} operators(optimised)={:?}", m.pattern, case.ast.flags, facts.operators),
        });
    }
    ctx.obs.sample(|| json!({"pattern": m.pattern, "flags": case.ast.flags, "inputs": m.inputs, "rep": case.rep, "shortcuts": labels}));
    Verdict::Pass
}

/// the same comparison on a pattern given as text (re-judges what the libFuzzer target `diff` finds)
pub fn check_opt_str(case: &StrCase, ctx: &mut Ctx) -> Verdict {
    let mut job = case.job();
    let ra = ctx.w.run(&job);
    job.no_opt = true;
    let rb = ctx.w.run(&job);
    let (a, b) = match (&ra, &rb) {
        (JobResult::Done(a), JobResult::Done(b)) => (a, b),
        (JobResult::Hang, _) | (_, JobResult::Hang) => return Verdict::Skip("hang"),
        _ => return Verdict::Skip("died"),
    };
    if any_bad(a) || any_bad(b) {
        return Verdict::Skip("panic");
    }
    if let Some(d) = diff_outcomes(a, b, &case.inputs) {
        let cut = a.compile_cutoffs > 0 || b.compile_cutoffs > 0 || a.per_input.iter().any(|x| x.any_cutoff()) || b.per_input.iter().any(|x| x.any_cutoff());
        let mut regions = vec![];
        if cut {
            regions.push("force_progress_cutoff");
        }
        if let Some(id) = ctx.known.attribute("C08", &regions, "results-differ") {
            return Verdict::Known(id);
        }
        return Verdict::Fail(Failure { sub: "optimised-vs-unoptimised".into(), expected: "identical results from both compilations".into(), actual: d, detail: format!("{}", case.describe()) });
    }
    Verdict::Pass
}

/// shapes that trigger each shortcut: leading literal / class / ^, X*Y with related or unrelated first sets, counted repeats
pub fn trigger_strategy() -> BoxedStrategy<Node> {
    // letters from different regions of the code space: the first-set comparison gives up after 100 characters, so
    // what happens for characters beyond that point ('x', 'é', '𐐀') differs from what happens for 'a'
    let lit = prop::sample::select(vec!['a', 'b', 'A', '1', '\n', 'c', 'x', 'z', 'é', '𐐀']).prop_map(Node::Lit);
    let cls = prop::sample::select(vec![
        ClassExpr { neg: false, items: vec![Item::Char('a'), Item::Char('b')], sub: None },
        ClassExpr { neg: false, items: vec![Item::Range('a', 'c')], sub: None },
        ClassExpr { neg: true, items: vec![Item::Char('a')], sub: None },
        ClassExpr { neg: false, items: vec![Item::Esc(Esc { kind: EscKind::Digit, neg: false })], sub: None },
        ClassExpr { neg: false, items: vec![Item::Esc(Esc { kind: EscKind::Space, neg: false }), Item::Char('a')], sub: None },
        ClassExpr { neg: true, items: vec![Item::Char('x')], sub: None },
        ClassExpr { neg: false, items: vec![Item::Range('u', 'z')], sub: None },
        ClassExpr { neg: false, items: vec![Item::Esc(Esc { kind: EscKind::Cat("L".into()), neg: false })], sub: None },
        ClassExpr { neg: true, items: vec![Item::Esc(Esc { kind: EscKind::Digit, neg: false })], sub: None },
    ])
    .prop_map(Node::Class);
    let atom = prop_oneof![4 => lit.clone(), 2 => cls.clone(), 1 => Just(Node::Dot), 1 => Just(Node::Esc(Esc{kind: EscKind::Space, neg:false})), 1 => Just(Node::Esc(Esc{kind: EscKind::Space, neg:true})), 1 => Just(Node::Esc(Esc{kind: EscKind::Digit, neg:false})), 1 => Just(Node::Esc(Esc{kind: EscKind::Digit, neg:true})), 1 => Just(Node::Esc(Esc{kind: EscKind::Word, neg:false}))];
    let quant = gen::quant_strategy(true, 3);
    let x = prop_oneof![
        3 => atom.clone(),
        3 => (atom.clone(), quant.clone()).prop_map(|(b, (min, max, greedy, brace))| Node::Rep { body: Box::new(b), min, max, greedy, brace }),
        1 => (atom.clone(), atom.clone()).prop_map(|(a, b)| Node::ncap(Node::Alt(vec![a, b]))),
        1 => (atom.clone(), quant.clone()).prop_map(|(b, (min, max, greedy, brace))| Node::Rep { body: Box::new(Node::cap(b)), min, max, greedy, brace }),
        1 => prop_oneof![Just(Node::Bol), Just(Node::Eol)],
        1 => prop::collection::vec(lit.clone(), 2..4).prop_map(Node::Cat),
        // a quantified multi-character literal: fixed length > 1 per iteration, which every length computation
        // (minimum length, fixed positions of preconditions, loop arithmetic) must multiply in
        2 => (prop::collection::vec(lit.clone(), 2..4), quant.clone()).prop_map(|(v, (min, max, greedy, brace))| Node::Rep { body: Box::new(Node::ncap(Node::Cat(v))), min, max, greedy, brace }),
        1 => (prop::collection::vec(lit.clone(), 2..4), 2u32..=3).prop_map(|(v, n)| Node::Rep { body: Box::new(Node::ncap(Node::Cat(v))), min: n, max: Some(n), greedy: true, brace: true }),
        // terms that can match the empty string without being a plain repeat: what follows them decides too
        1 => (lit.clone(), lit.clone(), lit.clone()).prop_map(|(a, b, c)| Node::ncap(Node::Alt(vec![Node::rep(Node::ncap(Node::Alt(vec![Node::Cat(vec![a, b.clone()]), b])), 0, None, true), c]))),
        1 => (lit.clone(), lit.clone()).prop_map(|(a, b)| Node::cap(Node::Alt(vec![Node::rep(Node::ncap(Node::Alt(vec![a.clone(), Node::Cat(vec![a, b.clone()])])), 0, Some(2), true), Node::Empty]))),
        1 => (lit.clone(), lit.clone()).prop_map(|(a, b)| Node::ncap(Node::Alt(vec![Node::Empty, Node::Cat(vec![a, b])]))),
    ];
    (prop::bool::weighted(0.3), prop::collection::vec(x, 1..6), prop::bool::weighted(0.2)).prop_map(|(bol, mut v, eol)| {
        if bol {
            v.insert(0, Node::Bol);
        }
        if eol {
            v.push(Node::Eol);
        }
        Node::Cat(v)
    })
    .boxed()
}

impl Prop for C08 {
    type Case = Case08;
    fn id(&self) -> &'static str {
        "C08"
    }
    fn parts(&self, tier: Tier) -> Vec<Part<Case08>> {
        let rep = prop::sample::select(vec!["[$0]", "$1", "x", "", "\\$"]).prop_map(|s| s.to_string());
        let s1 = (trigger_strategy(), gen::flags_strategy("ims"), gen::raw_inputs(8, 8), rep.clone())
            .prop_map(|(node, flags, inputs, rep)| Case08 { ast: AstCase { node, flags, inputs: Inputs::Raw(inputs) }, rep, text: None })
            .boxed();
        let cfg = GenCfg::basic(&['a', 'b', 'A', '1', '\n', 'x', 'é']);
        let s2 = (gen::node_strategy(&cfg), gen::flags_strategy("ims"), gen::raw_inputs(8, 8), rep)
            .prop_map(|(node, flags, inputs, rep)| Case08 { ast: AstCase { node, flags, inputs: Inputs::Raw(inputs) }, rep, text: None })
            .boxed();
        vec![
            Part { name: "shortcut-triggers".into(), strategy: s1, cases: tier.pick(150_000, 3_000_000) },
            Part { name: "random".into(), strategy: s2, cases: tier.pick(100_000, 2_000_000) },
            Part { name: "scaled".into(), strategy: super::c01::scaled_part(&cfg, "ims").prop_map(|ast| Case08 { ast, rep: "[$0]".into(), text: None }).boxed(), cases: tier.pick(30_000, 400_000) },
        ]
    }
    fn enumerations(&self, tier: Tier) -> Vec<(String, String, Box<dyn Iterator<Item = Case08> + Send>)> {
        // the two finite scopes of C01, each pattern compiled both ways; fewer inputs (every call is made four ways, twice)
        let (name, scope, it) = super::c01::macro_enumeration(tier);
        let it = it.map(|mut ast| {
            if let Inputs::Lit(v) = &mut ast.inputs {
                v.retain(|s| s.chars().count() <= 4);
            }
            Case08 { ast, rep: "[$0]".into(), text: None }
        });
        let size = tier.pick(3, 4);
        let nodes = crate::enumerate::up_to(&super::c01::enum_cfg(), size);
        let inputs = crate::enumerate::inputs(&['a', 'b', '\n'], 3);
        let scope2 = format!("all {} ASTs of size <= {} over the atoms and quantifiers of C01's first scope x {} inputs over {{a,b,LF}} of length <= 3 x flags {{'', i, m, ms}}", nodes.len(), size, inputs.len());
        let it2 = nodes.into_iter().flat_map(move |node| {
            let inputs = inputs.clone();
            ["", "i", "m", "ms"].into_iter().map(move |f| Case08 { ast: AstCase { node: node.clone(), flags: f.to_string(), inputs: Inputs::Lit(inputs.clone()) }, rep: "[$0]".into(), text: None })
        });
        vec![(name, format!("{scope} (inputs of length <= 4 only)"), Box::new(it)), ("exhaustive-small".into(), scope2, Box::new(it2))]
    }
    fn extra(&self, ctx: &mut Ctx) -> Vec<(String, Verdict, Option<Case08>)> {
        // thorough tier: coverage-guided search with the differential oracle inside the libFuzzer target `diff`
        if ctx.tier != Tier::Thorough {
            return vec![];
        }
        let seed = std::env::var("VERIF_SEED").ok().and_then(|s| s.parse().ok()).unwrap_or(0u64);
        let c = crate::fuzzrun::Campaign { name: "C08", target: "diff", hooks: true, runs_per_job: 400_000, jobs: 12, timeout_s: 25, seed: seed + 808 };
        match crate::fuzzrun::run(&c, &[]) {
            Err(e) => {
                eprintln!("harness error: fuzz campaign: {e}");
                std::process::exit(2)
            }
            Ok((found, execs)) => {
                ctx.obs.label(&format!("libfuzzer:executions={execs}"));
                ctx.obs.label(&format!("libfuzzer:artifacts={}", found.len()));
                ctx.obs.eval(execs);
                for f in found {
                    let v = check_opt_str(&f.case, ctx);
                    match v {
                        Verdict::Fail(fl) => {
                            let case = Case08 { ast: AstCase { node: Node::Empty, flags: String::new(), inputs: Inputs::Lit(vec![]) }, rep: String::new(), text: Some(f.case.clone()) };
                            return vec![(format!("libfuzzer-{}", f.kind), Verdict::Fail(Failure { detail: format!("{} (candidate found by libFuzzer, re-judged through the worker)", fl.detail), ..fl }), Some(case))];
                        }
                        Verdict::Known(_) => ctx.obs.label("libfuzzer:artifact-is-known-finding"),
                        _ => {
                            println!("note: libFuzzer artifact ({}) did not fail when re-judged through the worker: {}", f.kind, f.case.describe());
                            ctx.obs.label(&format!("libfuzzer:artifact-not-confirmed:{}", f.kind));
                        }
                    }
                }
                vec![]
            }
        }
    }
    fn check(&self, case: &Case08, ctx: &mut Ctx) -> Verdict {
        check_opt(case, ctx)
    }
    fn describe(&self, case: &Case08) -> Value {
        if let Some(t) = &case.text {
            return t.describe();
        }
        let m = case.ast.materialize(Dialect::XPath, &[]);
        json!({"pattern": m.pattern, "flags": case.ast.flags, "inputs": m.inputs, "rep": case.rep})
    }
    fn rule(&self) -> String {
        "evaluation = one API call (compile, is_match, replace_all, tokenize, analyze) executed on the normally compiled regex and on the same pattern compiled with every optimisation off (verification hook), results compared value for value; non-trivial = the optimised program carries at least one shortcut (prefix, initial class, preconditions, HASBOL, minimum length, unambiguous repeat) and the input is one of the generated ones; distinct = distinct (pattern, flags, input)".into()
    }
    fn guards(&self) -> Vec<Guard> {
        ["shortcut:prefix", "shortcut:initial_class", "shortcut:preconditions", "shortcut:hasbol", "shortcut:min_length", "shortcut:unambiguous_repeat"]
            .iter()
            .map(|l| Guard { label: l.to_string(), of: "".into(), min_fraction: 0.05 })
            .collect()
    }
    fn assumptions(&self) -> Vec<String> {
        vec!["'optimisations off' is what the hook provides: no Operation::optimize, no prefix / initial class / preconditions / minimum length / HASBOL; the parse-time quantifier simplifications are on both sides (C20 and C01 cover them)".into()]
    }
}
