//! C10 — category, block and name-character escapes match the Unicode / XML data (oracle: R3).
//! C09 shares the bulk-membership helper.
use super::common::*;
use crate::ast::*;
use crate::driver::*;
use crate::proto::*;
use crate::ucd;
use serde::{Deserialize, Serialize};
use serde_json::{json, Value};

pub struct C10;

pub const CHUNK: u32 = 4096;
pub const N_CHUNKS: u32 = 0x110000 / CHUNK; // 272

pub fn chunk_chars(chunk: u32) -> Vec<char> {
    (chunk * CHUNK..(chunk + 1) * CHUNK).filter_map(char::from_u32).collect()
}

/// Membership of every character of `chars` in the one-character pattern `atom` (an escape or a class
/// expression), observed through replace_all(chars, "") — the characters that remain are the non-members.
/// Returns Err(description) on disagreement with `want`.
pub fn bulk_check(atom: &str, flags: &str, chars: &[char], want: &dyn Fn(char) -> bool, ctx: &mut Ctx) -> Result<Result<(), String>, Verdict> {
    let input: String = chars.iter().collect();
    let mut job = Job::new(Dialect::XPath, atom, flags);
    job.inputs = vec![input];
    job.replacements = vec![String::new()];
    job.apis = API_REPLACE;
    let out = match ctx.w.run(&job) {
        JobResult::Done(o) => o,
        JobResult::Hang => return Err(Verdict::Skip("hang")),
        JobResult::Died(_) => return Err(Verdict::Skip("died")),
    };
    match &out.compile {
        Res::Ok(_) => {}
        Res::Err(k) => return Ok(Err(format!("pattern {atom:?} rejected: {k:?}"))),
        Res::Panic(_) => return Err(Verdict::Skip("panic")),
    }
    let got = match &out.per_input[0].replace[0] {
        Res::Ok(s) => s.clone(),
        Res::Panic(_) => return Err(Verdict::Skip("panic")),
        Res::Err(k) => return Ok(Err(format!("replace_all failed: {k:?}"))),
    };
    let expect: String = chars.iter().filter(|c| !want(**c)).collect();
    if got == expect {
        return Ok(Ok(()));
    }
    // locate the first character on which they differ
    let g: Vec<char> = got.chars().collect();
    let mut gi = 0;
    for c in chars {
        let remains = gi < g.len() && g[gi] == *c;
        let should_remain = !want(*c);
        if remains != should_remain {
            return Ok(Err(format!(
                "U+{:04X} (general category {}): engine says {}, data says {}",
                *c as u32,
                ucd::gc_name(*c),
                if remains { "no match" } else { "match" },
                if should_remain { "no match" } else { "match" }
            )));
        }
        if remains {
            gi += 1;
        }
    }
    Ok(Err("outputs differ".into()))
}

#[derive(Clone, Debug, PartialEq, Eq, Hash, Serialize, Deserialize)]
pub enum Case10 {
    /// escape x chunk of 4096 code points
    Member { esc: Esc, chunk: u32 },
    /// a name that must be rejected with Error::Syntax
    BadName(String),
}

pub fn all_escapes() -> Vec<Esc> {
    let mut v = vec![];
    for neg in [false, true] {
        for k in [EscKind::Digit, EscKind::Word, EscKind::Space, EscKind::NameStart, EscKind::NameChar] {
            v.push(Esc { kind: k, neg });
        }
        for n in ucd::TWO_LETTER.iter().chain(ucd::ONE_LETTER.iter()) {
            v.push(Esc { kind: EscKind::Cat(n.to_string()), neg });
        }
    }
    v
}

pub fn block_escapes() -> Vec<Esc> {
    let mut v = vec![];
    for name in &ucd::blocks().names {
        for neg in [false, true] {
            v.push(Esc { kind: EscKind::Block(name.clone()), neg });
        }
    }
    v
}

fn bad_names() -> Vec<String> {
    let mut v: Vec<String> = vec![
        "\\p{Cs}", "\\P{Cs}", "\\p{LC}", "\\p{lu}", "\\p{LU}", "\\p{Lx}", "\\p{X}", "\\p{}", "\\p{IsNoSuchBlock}", "\\p{IsBasic Latin}", "\\p{Isbasiclatin}", "\\p{IsBASICLATIN}",
        "\\p{BasicLatin}", "\\p{InBasicLatin}", "\\p{Is}", "\\p{L", "\\p", "\\pL", "\\p{Letter}", "\\p{Lu }", "\\p{ Lu}", "\\P{IsGreekk}", "\\p{IsLatin-1 Supplement}", "\\p{Nd1}",
        "\\p{IsPrivateUseArea2}", "\\p{Zz}", "\\p{Sx}",
    ]
    .into_iter()
    .map(String::from)
    .collect();
    // every two-letter combination of category initials that is not a category
    for a in ['L', 'M', 'N', 'P', 'Z', 'S', 'C'] {
        for b in 'a'..='z' {
            let n = format!("{a}{b}");
            if !ucd::TWO_LETTER.contains(&n.as_str()) {
                v.push(format!("\\p{{{n}}}"));
            }
        }
    }
    v
}

fn check(case: &Case10, ctx: &mut Ctx) -> Verdict {
    match case {
        Case10::BadName(p) => {
            let mut job = Job::new(Dialect::XPath, p, "");
            job.apis = 0;
            let out = match ctx.w.run(&job) {
                JobResult::Done(o) => o,
                _ => return Verdict::Skip("hang"),
            };
            ctx.obs.eval(1);
            ctx.obs.label("bad-name");
            match &out.compile {
                Res::Err(ErrKind::Syntax) => Verdict::Pass,
                other => Verdict::Fail(Failure { sub: "unknown-name".into(), expected: "Err(Syntax)".into(), actual: format!("{:?}", other.err().map(|e| format!("{e:?}")).unwrap_or("accepted".into())), detail: p.clone() }),
            }
        }
        Case10::Member { esc, chunk } => {
            let chars = chunk_chars(*chunk);
            if chars.is_empty() {
                return Verdict::Pass;
            }
            let atom = esc.render();
            let want = |c: char| ucd::esc_contains(esc, c);
            ctx.obs.eval(chars.len() as u64);
            match bulk_check(&atom, "", &chars, &want, ctx) {
                Err(v) => return v,
                Ok(Err(what)) => {
                    return Verdict::Fail(Failure { sub: "membership".into(), expected: "membership as in the Unicode / XML data".into(), actual: what, detail: format!("escape {atom} on code points U+{:04X}..U+{:04X}", chunk * CHUNK, (chunk + 1) * CHUNK - 1) })
                }
                Ok(Ok(())) => {}
            }
            // the same escape after its complement was used earlier in the same pattern (and inside a class next to
            // it): the set an escape denotes must not depend on what else the pattern mentions
            if *chunk % 16 == 0 || *chunk == 1 {
                let comp = Esc { kind: esc.kind.clone(), neg: !esc.neg }.render();
                for form in [format!("{comp}{{0}}{atom}"), format!("(?:{comp}|{atom}){{0}}{atom}"), format!("[{atom}-[{comp}]]")] {
                    ctx.obs.eval(chars.len() as u64);
                    match bulk_check(&form, "", &chars, &want, ctx) {
                        Err(v) => return v,
                        Ok(Err(what)) => {
                            return Verdict::Fail(Failure { sub: "membership(mixed polarity)".into(), expected: format!("{form} matches the same characters as {atom}"), actual: what, detail: format!("code points U+{:04X}..U+{:04X}", chunk * CHUNK, (chunk + 1) * CHUNK - 1) })
                        }
                        Ok(Ok(())) => {}
                    }
                }
                ctx.obs.label("mixed-polarity-forms");
                // flag i leaves class escapes alone, also inside a group
                for (form, flags) in [(atom.clone(), "i"), (format!("[{atom}]"), "i"), (format!("[^{}]", Esc { kind: esc.kind.clone(), neg: !esc.neg }.render()), "i")] {
                    // [^\P{X}] = \p{X}
                    ctx.obs.eval(chars.len() as u64);
                    match bulk_check(&form, flags, &chars, &want, ctx) {
                        Err(v) => return v,
                        Ok(Err(what)) => {
                            return Verdict::Fail(Failure { sub: "membership(flag i)".into(), expected: format!("{form} with flag i matches the same characters as {atom} without it"), actual: what, detail: format!("code points U+{:04X}..U+{:04X}", chunk * CHUNK, (chunk + 1) * CHUNK - 1) })
                        }
                        Ok(Ok(())) => {}
                    }
                }
            }
            // boundaries of the set inside this chunk: checked again one character at a time through ^E$
            let mut boundary: Vec<char> = vec![];
            for w in chars.windows(2) {
                if want(w[0]) != want(w[1]) {
                    boundary.push(w[0]);
                    boundary.push(w[1]);
                }
            }
            ctx.obs.label(match &esc.kind {
                EscKind::Cat(_) => "kind:category",
                EscKind::Block(_) => "kind:block",
                _ => "kind:multi-char-escape",
            });
            for b in &boundary {
                ctx.obs.nontrivial(&(&atom, *b as u32));
            }
            if !boundary.is_empty() {
                boundary.truncate(64);
                let mut job = Job::new(Dialect::XPath, &format!("^{atom}$"), "");
                job.inputs = boundary.iter().map(|c| c.to_string()).collect();
                job.apis = API_IS_MATCH;
                let out = match ctx.w.run(&job) {
                    JobResult::Done(o) => o,
                    _ => return Verdict::Skip("hang"),
                };
                for (i, c) in boundary.iter().enumerate() {
                    ctx.obs.eval(1);
                    match out.per_input.get(i).and_then(|io| io.is_match.as_ref()) {
                        Some(Res::Ok(b)) if *b == want(*c) => {}
                        other => {
                            return Verdict::Fail(Failure {
                                sub: "membership(anchored)".into(),
                                expected: format!("is_match(^{atom}$, U+{:04X}) = {}", *c as u32, want(*c)),
                                actual: format!("{other:?}"),
                                detail: format!("general category {}", ucd::gc_name(*c)),
                            })
                        }
                    }
                }
            }
            ctx.obs.sample(|| json!({"escape": atom, "code_points": format!("U+{:04X}..U+{:04X}", chunk * CHUNK, (chunk + 1) * CHUNK - 1), "set_boundaries_in_chunk": boundary.len() / 2}));
            Verdict::Pass
        }
    }
}

impl Prop for C10 {
    type Case = Case10;
    fn id(&self) -> &'static str {
        "C10"
    }
    fn parts(&self, _tier: Tier) -> Vec<Part<Case10>> {
        vec![]
    }
    fn enumerations(&self, tier: Tier) -> Vec<(String, String, Box<dyn Iterator<Item = Case10> + Send>)> {
        let escs = all_escapes();
        let n = escs.len();
        let it1 = escs.into_iter().flat_map(|e| (0..N_CHUNKS).map(move |c| Case10::Member { esc: e.clone(), chunk: c }));
        let blocks = block_escapes();
        let nb = blocks.len();
        let thorough = tier == Tier::Thorough;
        let it2 = blocks.into_iter().flat_map(move |e| {
            let chunks: Vec<u32> = if thorough {
                (0..N_CHUNKS).collect()
            } else {
                // the chunks overlapping the block, their neighbours, and three fixed far-away chunks
                let name = if let EscKind::Block(n) = &e.kind { n.clone() } else { unreachable!() };
                let mut v = vec![0, 15, 16, 271];
                for (a, b) in &ucd::blocks().by_name[&name] {
                    let (ca, cb) = (a / CHUNK, b / CHUNK);
                    for c in ca.saturating_sub(1)..=(cb + 1).min(N_CHUNKS - 1) {
                        v.push(c);
                    }
                }
                v.sort();
                v.dedup();
                v
            };
            chunks.into_iter().map(move |c| Case10::Member { esc: e.clone(), chunk: c })
        });
        let bad = bad_names();
        let nbad = bad.len();
        vec![
            ("categories-and-escapes".into(), format!("{n} escapes (29 two-letter categories, 7 groups, \\d \\w \\s \\i \\c, each with its complement) x all 1,112,064 scalar values"), Box::new(it1)),
            (
                "blocks".into(),
                if thorough { format!("{nb} block escapes (\\p and \\P) x all scalar values") } else { format!("{nb} block escapes (\\p and \\P) x every code point of the block, of the neighbouring 4096-code-point chunks and of four fixed chunks") },
                Box::new(it2),
            ),
            ("unknown-names".into(), format!("{nbad} unknown or malformed category / block names"), Box::new(bad.into_iter().map(Case10::BadName))),
        ]
    }
    fn extra(&self, _ctx: &mut Ctx) -> Vec<(String, Verdict, Option<Case10>)> {
        // regexml/src/block.rs must be what regexml-ucd-blocks generates from the shipped block lists
        let tdir = verif_dir().join("harness").join("target").join("ucd");
        let out = std::process::Command::new("cargo")
            .args(["run", "-q", "--offline", "-p", "regexml-ucd-blocks", "--target-dir"])
            .arg(&tdir)
            .current_dir("/repo")
            .env("CARGO_NET_OFFLINE", "true")
            .env_remove("RUSTFLAGS")
            .output();
        let out = match out {
            Ok(o) if o.status.success() => String::from_utf8_lossy(&o.stdout).to_string(),
            Ok(o) => {
                eprintln!("harness error: regexml-ucd-blocks did not run: {}", String::from_utf8_lossy(&o.stderr));
                std::process::exit(2)
            }
            Err(e) => {
                eprintln!("harness error: cannot run cargo: {e}");
                std::process::exit(2)
            }
        };
        let norm = |s: &str| s.chars().filter(|c| !c.is_whitespace() && *c != ',').collect::<String>();
        let have = std::fs::read_to_string("/repo/regexml/src/block.rs").unwrap_or_default();
        if norm(&out) != norm(&have) {
            return vec![(
                "stale-block-table".into(),
                Verdict::Fail(Failure { sub: "stale-block-table".into(), expected: "regexml/src/block.rs equals the output of regexml-ucd-blocks (modulo whitespace)".into(), actual: "they differ".into(), detail: String::new() }),
                None,
            )];
        }
        vec![]
    }
    fn check(&self, case: &Case10, ctx: &mut Ctx) -> Verdict {
        check(case, ctx)
    }
    fn describe(&self, case: &Case10) -> Value {
        match case {
            Case10::BadName(p) => json!({"pattern": p}),
            Case10::Member { esc, chunk } => json!({"escape": esc.render(), "code_points": format!("U+{:04X}..U+{:04X}", chunk * CHUNK, (chunk + 1) * CHUNK - 1)}),
        }
    }
    fn rule(&self) -> String {
        "evaluation = membership of one scalar value in one escape, observed in bulk through replace_all(chunk of 4096 code points, '') and, at every boundary of the set, again through is_match('^E$', c); oracle R3: General_Category from ICU4X maps (a different access path from the sets the crate uses) with a hand-written name table, blocks parsed from the Blocks.txt / CompatBlocks.txt shipped in the repository (+ PrivateUse per XSD 1.1 G.4.2.3), XML 1.0 5th edition NameStartChar / NameChar ranges typed independently; non-trivial = (escape, scalar) pairs at a boundary of the escape's set; distinct = distinct such pairs".into()
    }
    fn min_nontrivial(&self, _tier: Tier) -> u64 {
        10_000
    }
    fn assumptions(&self) -> Vec<String> {
        vec!["trusted base: ICU4X 1.5 general-category data and the Blocks.txt shipped with the repository; no second Unicode database of the same version is available offline".into()]
    }
}
