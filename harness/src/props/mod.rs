use crate::driver::{run_check, run_replay, Tier};

pub mod common;
pub mod c01;

pub fn dispatch_check(id: &str, tier: Tier, seed: u64) -> i32 {
    match id {
        "C01" => run_check(&c01::C01, tier, seed),
        _ => {
            eprintln!("harness error: unknown property {id}");
            2
        }
    }
}

pub fn dispatch_replay(id: &str, file: &str) -> i32 {
    match id {
        "C01" => run_replay(&c01::C01, file),
        _ => {
            eprintln!("harness error: unknown property {id}");
            2
        }
    }
}
