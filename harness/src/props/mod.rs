use crate::driver::{run_check, run_replay, Tier};

pub mod common;
pub mod c01;
pub mod c02;
pub mod c03;
pub mod c04;
pub mod spans;
pub mod c05;
pub mod c06;
pub mod c07;
pub mod c08;
pub mod c09;
pub mod c10;
pub mod c11;
pub mod c12;
pub mod c13;
pub mod c14;
pub mod c15;
pub mod c16;
pub mod c17;
pub mod c18;
pub mod c19;
pub mod c20;

pub fn dispatch_check(id: &str, tier: Tier, seed: u64) -> i32 {
    match id {
        "C01" => run_check(&c01::C01, tier, seed),
        "C02" => run_check(&c02::C02, tier, seed),
        "C03" => run_check(&c03::C03, tier, seed),
        "C04" => run_check(&c04::C04, tier, seed),
        "C05" => run_check(&c05::C05, tier, seed),
        "C06" => run_check(&c06::C06, tier, seed),
        "C08" => run_check(&c08::C08, tier, seed),
        "C12" => run_check(&c12::C12, tier, seed),
        "C16" => run_check(&c16::C16, tier, seed),
        "C19" => run_check(&c19::C19, tier, seed),
        "C20" => run_check(&c20::C20, tier, seed),
        "C11" => run_check(&c11::C11, tier, seed),
        "C13" => run_check(&c13::C13, tier, seed),
        "C15" => run_check(&c15::C15, tier, seed),
        "C09" => run_check(&c09::C09, tier, seed),
        "C10" => run_check(&c10::C10, tier, seed),
        "C07" => run_check(&c07::C07, tier, seed),
        "C14" => run_check(&c14::C14, tier, seed),
        "C17" => run_check(&c17::C17, tier, seed),
        "C18" => run_check(&c18::C18, tier, seed),
        _ => {
            eprintln!("harness error: unknown property {id}");
            2
        }
    }
}

pub fn dispatch_replay(id: &str, file: &str) -> i32 {
    match id {
        "C01" => run_replay(&c01::C01, file),
        "C02" => run_replay(&c02::C02, file),
        "C03" => run_replay(&c03::C03, file),
        "C04" => run_replay(&c04::C04, file),
        "C05" => run_replay(&c05::C05, file),
        "C06" => run_replay(&c06::C06, file),
        "C08" => run_replay(&c08::C08, file),
        "C12" => run_replay(&c12::C12, file),
        "C16" => run_replay(&c16::C16, file),
        "C19" => run_replay(&c19::C19, file),
        "C20" => run_replay(&c20::C20, file),
        "C11" => run_replay(&c11::C11, file),
        "C13" => run_replay(&c13::C13, file),
        "C15" => run_replay(&c15::C15, file),
        "C09" => run_replay(&c09::C09, file),
        "C10" => run_replay(&c10::C10, file),
        "C07" => run_replay(&c07::C07, file),
        "C14" => run_replay(&c14::C14, file),
        "C17" => run_replay(&c17::C17, file),
        "C18" => run_replay(&c18::C18, file),
        _ => {
            eprintln!("harness error: unknown property {id}");
            2
        }
    }
}
