//! C12 — anchors and dot follow the m and s flags exactly (oracles R1 for is_match, R2/R1 for spans).
use super::c01::check_is_match;
use super::c02::check_spans;
use super::common::*;
use crate::ast::*;
use crate::driver::*;
use crate::enumerate::{self, EnumCfg};
use crate::gen::{self, GenCfg};
use crate::proto::*;
use proptest::prelude::*;
use serde_json::Value;

pub struct C12;

fn enum_cfg() -> EnumCfg {
    EnumCfg {
        atoms: vec![Node::Lit('a'), Node::Dot, Node::Bol, Node::Eol, Node::Lit('\n')],
        quants: vec![(0, Some(1), true), (0, None, true), (1, None, true), (2, Some(2), true), (0, None, false), (1, None, false)],
        cap: true,
        noncap: false,
        alt: true,
        backref: false,
    }
}

fn check(case: &AstCase, ctx: &mut Ctx) -> Verdict {
    let node = resolve(&case.node);
    let anchor_inside = {
        // an anchor that is not at the pattern edge
        let pat = render(&node, Dialect::XPath);
        let inner: String = pat.chars().skip(1).collect::<String>();
        let inner = if inner.ends_with('$') { &inner[..inner.len() - 1] } else { &inner[..] };
        inner.replace("\\^", "").replace("\\$", "").contains(['^', '$'])
    };
    if anchor_inside {
        ctx.obs.label("anchor-not-at-edge");
    }
    if node.any(&|n| matches!(n, Node::Dot)) {
        ctx.obs.label("has-dot");
    }
    ctx.obs.label(&format!("flags={}", case.flags));
    let v1 = check_is_match("C12", case, ctx);
    match v1 {
        Verdict::Fail(_) | Verdict::Skip(_) => return v1,
        _ => {}
    }
    let v2 = check_spans("C12", case, ctx);
    match (&v1, &v2) {
        (_, Verdict::Fail(_)) => v2,
        (Verdict::Known(_), _) => v1,
        _ => v2,
    }
}

impl Prop for C12 {
    type Case = AstCase;
    fn id(&self) -> &'static str {
        "C12"
    }
    fn parts(&self, tier: Tier) -> Vec<Part<AstCase>> {
        let mut cfg = GenCfg::basic(&['a', 'b', '\n', '\r']);
        cfg.w_anchor = 8;
        cfg.w_dot = 6;
        cfg.w_backref = 0;
        cfg.w_esc = 0;
        cfg.w_class = 1;
        cfg.class.chars = vec!['a', '\n', '\r'];
        cfg.class.escapes = false;
        let s = (gen::node_strategy(&cfg), gen::flags_strategy("ms"), gen::raw_inputs(10, 7))
            .prop_map(|(node, flags, inputs)| AstCase { node, flags, inputs: Inputs::Raw(inputs) })
            .boxed();
        vec![
            Part { name: "random-anchors-dot".into(), strategy: s, cases: tier.pick(150_000, 3_000_000) },
            // long multi-line inputs, large counts: line seeking and anchors far from offset 0
            Part { name: "scaled".into(), strategy: super::c01::scaled_part(&cfg, "ms"), cases: tier.pick(30_000, 400_000) },
        ]
    }
    fn enumerations(&self, tier: Tier) -> Vec<(String, String, Box<dyn Iterator<Item = AstCase> + Send>)> {
        let size = tier.pick(3, 4);
        let len = tier.pick(4, 5);
        let nodes = enumerate::up_to(&enum_cfg(), size);
        let inputs = enumerate::inputs(&['a', 'b', '\n', '\r'], len);
        let flagsets: Vec<String> = vec!["", "m", "s", "ms"].into_iter().map(String::from).collect();
        let scope = format!(
            "all {} ASTs of size <= {} over atoms {{a, ., ^, $, LF}} x quantifiers {{?,*,+,{{2}},*?,+?}} x all {} inputs over {{a,b,LF,CR}} of length <= {} x the four m/s combinations",
            nodes.len(),
            size,
            inputs.len(),
            len
        );
        let it = nodes.into_iter().flat_map(move |node| {
            let inputs = inputs.clone();
            flagsets.clone().into_iter().map(move |f| AstCase { node: node.clone(), flags: f, inputs: Inputs::Lit(inputs.clone()) })
        });
        vec![("exhaustive-anchors".into(), scope, Box::new(it))]
    }
    fn check(&self, case: &AstCase, ctx: &mut Ctx) -> Verdict {
        check(case, ctx)
    }
    fn describe(&self, case: &AstCase) -> Value {
        case.describe(Dialect::XPath, &[])
    }
    fn rule(&self) -> String {
        "evaluation = is_match and the match-span list of one (pattern with ^, $ or ., flags over {m,s}, input over {a,b,LF,CR}) compared with R1 (is_match, span membership, leftmost) and R2 (ordered-choice spans, strict clause) using: without m ^ only at 0 and $ only at the end; with m ^ also after every LF that is not the last character and $ also before every LF; dot excludes exactly LF and CR without s; non-trivial as in C01/C02 (pattern >= 3 nodes with an operator, non-empty input / a match with several candidate ends or >= 2 matches); distinct = distinct (pattern, flags, input)".into()
    }
    fn guards(&self) -> Vec<Guard> {
        vec![
            Guard { label: "anchor-not-at-edge".into(), of: "".into(), min_fraction: 0.2 },
            Guard { label: "has-dot".into(), of: "".into(), min_fraction: 0.2 },
            Guard { label: "flags=ms".into(), of: "".into(), min_fraction: 0.1 },
            Guard { label: "flags=m".into(), of: "".into(), min_fraction: 0.1 },
        ]
    }
}
