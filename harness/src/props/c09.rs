//! C09 — character class expressions denote exactly their set algebra (oracle: R4 over R3).
use super::c10::{bulk_check, chunk_chars, CHUNK, N_CHUNKS};
use super::common::*;
use crate::ast::*;
use crate::driver::*;
use crate::gen::{self, ClassCfg};
use crate::proto::*;
use crate::ucd;
use proptest::prelude::*;
use serde::{Deserialize, Serialize};
use serde_json::{json, Value};

pub struct C09;

#[derive(Clone, Debug, PartialEq, Eq, Hash, Serialize, Deserialize)]
pub struct Case09 {
    pub ce: ClassExpr,
    /// 0 = none, 1 = raw hyphen first in the group, 2 = raw hyphen last (without subtraction),
    /// 3 = raw hyphen directly before the subtraction ([ab--[b]])
    pub hyphen_edge: u8,
    pub chunks: Vec<u16>,
    pub all_chunks: bool,
}

fn class_cfg() -> ClassCfg {
    ClassCfg {
        chars: vec!['a', 'b', 'z', 'A', '-', '^', ']', '[', '\\', 'é', '𐐀', '\n', '0', ' ', '\u{FFFD}', '\u{D7FF}', '\u{E000}', '\u{10FFFF}', '\u{0}'],
        escapes: true,
        neg: true,
        sub_depth: 2,
        range_pool: vec![
            ('a', 'c'),
            ('b', 'y'),
            ('0', '9'),
            ('A', 'Z'),
            ('𐐀', '𐐨'),
            ('\u{FFF0}', '\u{10010}'),
            ('\u{D7F0}', '\u{E010}'),
            ('\u{0}', '\u{1F}'),
            ('\u{10FFF0}', '\u{10FFFF}'),
            ('é', 'é'),
            ('\u{3B1}', '\u{3C9}'),
            // end points that have to be, or may be, written as single-character escapes
            ('\t', '\n'),
            ('\n', '\r'),
            ('\u{0}', '\n'),
            ('[', ']'),
            ('X', ']'),
            ('\\', '^'),
            ('Z', '^'),
            ('+', '-'),
            ('-', '/'),
            ('*', '.'),
            ('+', '.'),
            ('$', ')'),
            ('(', '?'),
            ('z', '|'),
            ('{', '}'),
        ],
    }
}

fn render_case(case: &Case09) -> String {
    let mut s = String::new();
    case.ce.render(&mut s);
    match case.hyphen_edge {
        1 => {
            // after '[' or '[^'
            let at = if case.ce.neg { 2 } else { 1 };
            s.insert(at, '-');
        }
        2 if case.ce.sub.is_none() => {
            let at = s.len() - 1;
            s.insert(at, '-');
        }
        3 if case.ce.sub.is_some() => {
            // render again with the hyphen in front of "-[": items, then '-', then the subtraction
            let mut t = String::from("[");
            if case.ce.neg {
                t.push('^');
            }
            let head = ClassExpr { neg: false, items: case.ce.items.clone(), sub: None };
            let mut h = String::new();
            head.render(&mut h);
            t.push_str(&h[1..h.len() - 1]);
            t.push('-');
            t.push('-');
            case.ce.sub.as_ref().unwrap().render(&mut t);
            t.push(']');
            return t;
        }
        _ => {}
    }
    s
}

fn member(case: &Case09, c: char) -> bool {
    let hy = matches!(case.hyphen_edge, 1) || (case.hyphen_edge == 2 && case.ce.sub.is_none()) || (case.hyphen_edge == 3 && case.ce.sub.is_some());
    if hy {
        // the hyphen joins the positive part of the top-level group
        let mut ce = case.ce.clone();
        ce.items.push(Item::Char('-'));
        ucd::class_contains(&ce, c, false)
    } else {
        ucd::class_contains(&case.ce, c, false)
    }
}

fn endpoints(ce: &ClassExpr, out: &mut Vec<char>) {
    for it in &ce.items {
        match it {
            Item::Char(c) => out.push(*c),
            Item::Range(a, b) => {
                out.push(*a);
                out.push(*b);
            }
            Item::Esc(_) => {}
        }
    }
    if let Some(s) = &ce.sub {
        endpoints(s, out);
    }
}

pub fn check_class(case: &Case09, ctx: &mut Ctx) -> Verdict {
    let atom = render_case(case);
    let want = |c: char| member(case, c);
    let mut eps = vec![];
    endpoints(&case.ce, &mut eps);
    let mut chunks: Vec<u32> = if case.all_chunks {
        (0..N_CHUNKS).collect()
    } else {
        let mut v: Vec<u32> = vec![0, 13, 14, 15, 16, 271];
        for e in &eps {
            v.push(*e as u32 / CHUNK);
        }
        for c in &case.chunks {
            v.push(((*c as u32) * N_CHUNKS) >> 16);
        }
        v
    };
    chunks.sort();
    chunks.dedup();
    let multi = case.ce.items.len() >= 2 || case.ce.neg || case.ce.sub.is_some();
    ctx.obs.label(if case.ce.sub.is_some() { "has-subtraction" } else { "no-subtraction" });
    if case.ce.neg {
        ctx.obs.label("negated");
    }
    if case.ce.depth() >= 3 {
        ctx.obs.label("nested-subtraction");
    }
    if case.hyphen_edge != 0 {
        ctx.obs.label("raw-hyphen-at-edge");
    }
    if case.hyphen_edge == 3 && case.ce.sub.is_some() {
        ctx.obs.label("raw-hyphen-before-subtraction");
    }
    let mut boundary: Vec<char> = vec![];
    let (mut members, mut non_members) = (0u64, 0u64);
    for ch in &chunks {
        let chars = chunk_chars(*ch);
        if chars.is_empty() {
            continue;
        }
        ctx.obs.eval(chars.len() as u64);
        match bulk_check(&atom, "", &chars, &want, ctx) {
            Err(v) => return v,
            Ok(Err(what)) => {
                return Verdict::Fail(Failure { sub: "membership".into(), expected: "membership by set algebra on the parts".into(), actual: what, detail: format!("class {atom:?} on code points U+{:04X}..U+{:04X}", ch * CHUNK, (ch + 1) * CHUNK - 1) })
            }
            Ok(Ok(())) => {}
        }
        for w in chars.windows(2) {
            if want(w[0]) != want(w[1]) && boundary.len() < 24 {
                boundary.push(w[0]);
                boundary.push(w[1]);
            }
        }
        for c in &chars {
            if want(*c) {
                members += 1
            } else {
                non_members += 1
            }
        }
    }
    if multi && members > 0 && non_members > 0 {
        for b in &boundary {
            ctx.obs.nontrivial(&(&atom, *b as u32));
        }
        ctx.obs.label("members-and-non-members");
    }
    // the same set in other syntactic positions, one character at a time
    if !boundary.is_empty() {
        let forms = [format!("^{atom}$"), format!("^(?:{atom})$"), format!("^({atom})$"), format!("^{atom}{{1}}$"), format!("^(?:{atom})+$"), format!("^{atom}*$")];
        for f in &forms {
            let mut job = Job::new(Dialect::XPath, f, "");
            job.inputs = boundary.iter().map(|c| c.to_string()).collect();
            job.apis = API_IS_MATCH;
            let out = match ctx.w.run(&job) {
                JobResult::Done(o) => o,
                _ => return Verdict::Skip("hang"),
            };
            if out.compile.ok().is_none() {
                return Verdict::Fail(Failure { sub: "form-rejected".into(), expected: "accepted".into(), actual: format!("{:?}", out.compile), detail: f.clone() });
            }
            for (i, c) in boundary.iter().enumerate() {
                ctx.obs.eval(1);
                match out.per_input[i].is_match.as_ref() {
                    Some(Res::Ok(b)) if *b == want(*c) => {}
                    other => {
                        return Verdict::Fail(Failure { sub: "membership(in context)".into(), expected: format!("is_match({f:?}, U+{:04X}) = {}", *c as u32, want(*c)), actual: format!("{other:?}"), detail: String::new() })
                    }
                }
            }
        }
    }
    // [c] = c
    if case.ce.items.len() == 1 && !case.ce.neg && case.ce.sub.is_none() && case.hyphen_edge == 0 {
        if let Item::Char(c) = case.ce.items[0] {
            ctx.obs.label("one-char-class-vs-literal");
            let lit = render(&Node::Lit(c), Dialect::XPath);
            let probe: Vec<char> = vec![c, 'a', '-', '^', '\\', ']', char::from_u32(c as u32 + 1).unwrap_or('b')];
            for f in [format!("^{atom}$"), format!("^{lit}$")] {
                let mut job = Job::new(Dialect::XPath, &f, "");
                job.inputs = probe.iter().map(|c| c.to_string()).collect();
                job.apis = API_IS_MATCH;
                let out = match ctx.w.run(&job) {
                    JobResult::Done(o) => o,
                    _ => return Verdict::Skip("hang"),
                };
                for (i, p) in probe.iter().enumerate() {
                    ctx.obs.eval(1);
                    match out.per_input.get(i).and_then(|io| io.is_match.as_ref()) {
                        Some(Res::Ok(b)) if *b == (*p == c) => {}
                        other => return Verdict::Fail(Failure { sub: "one-char-class-vs-literal".into(), expected: format!("is_match({f:?}, {p:?}) = {}", *p == c), actual: format!("{other:?}"), detail: String::new() }),
                    }
                }
            }
        }
    }
    ctx.obs.sample(|| json!({"class": atom, "chunks_checked": chunks.len(), "boundary_samples": boundary.iter().map(|c| format!("U+{:04X}", *c as u32)).collect::<Vec<_>>() }));
    Verdict::Pass
}

impl Prop for C09 {
    type Case = Case09;
    fn id(&self) -> &'static str {
        "C09"
    }
    fn parts(&self, tier: Tier) -> Vec<Part<Case09>> {
        let s = (gen::class_strategy(&class_cfg()), 0u8..7, prop::collection::vec(any::<u16>(), 2..=2))
            .prop_map(|(ce, h, chunks)| Case09 { ce, hyphen_edge: if h < 4 { h } else { 0 }, chunks, all_chunks: false })
            .boxed();
        let mut parts = vec![Part { name: "classes-sampled-chunks".into(), strategy: s, cases: tier.pick(6_000, 100_000) }];
        let s2 = (gen::class_strategy(&class_cfg()), 0u8..6).prop_map(|(ce, h)| Case09 { ce, hyphen_edge: if h < 3 { h } else { 0 }, chunks: vec![], all_chunks: true }).boxed();
        parts.push(Part { name: "classes-all-scalar-values".into(), strategy: s2, cases: tier.pick(32, 400) });
        parts
    }
    fn check(&self, case: &Case09, ctx: &mut Ctx) -> Verdict {
        check_class(case, ctx)
    }
    fn describe(&self, case: &Case09) -> Value {
        json!({"class": render_case(case), "all_chunks": case.all_chunks})
    }
    fn rule(&self) -> String {
        "evaluation = membership of one scalar value in one generated class expression (nesting depth <= 3, chars, ranges incl. astral and surrogate-gap-spanning, single- and multi-character escapes, negation, subtraction, raw hyphen at an edge), observed in bulk through replace_all over 4096-code-point chunks (the chunks holding every range end point and listed character, six fixed chunks around the BMP edges, two random ones; all 272 chunks = every scalar value for the second part) and again one character at a time, at the set's boundaries, in six syntactic positions (^C$, ^(?:C)$, ^(C)$, ^C{1}$, ^(?:C)+$, ^C*$); oracle R4; non-trivial = boundary characters of expressions with >= 2 items or negation/subtraction that have both members and non-members among the tested values; distinct = distinct (expression, scalar)".into()
    }
    fn guards(&self) -> Vec<Guard> {
        vec![
            Guard { label: "has-subtraction".into(), of: "".into(), min_fraction: 0.2 },
            Guard { label: "negated".into(), of: "".into(), min_fraction: 0.2 },
            Guard { label: "nested-subtraction".into(), of: "".into(), min_fraction: 0.03 },
            Guard { label: "members-and-non-members".into(), of: "".into(), min_fraction: 0.5 },
            Guard { label: "one-char-class-vs-literal".into(), of: "".into(), min_fraction: 0.01 },
            Guard { label: "raw-hyphen-before-subtraction".into(), of: "".into(), min_fraction: 0.01 },
        ]
    }
}
