//! C19 — back-references match a copy of what their group captured.
use super::c01::check_is_match;
use super::c02::check_spans;
use super::c03::check_captures;
use super::common::*;
use crate::ast::*;
use crate::driver::*;
use crate::gen::{self, GenCfg};
use crate::oracle_lang::{self, Tri};
use crate::proto::*;
use proptest::prelude::*;
use serde::{Deserialize, Serialize};
use serde_json::{json, Value};

pub struct C19;

#[derive(Clone, Debug, PartialEq, Eq, Hash, Serialize, Deserialize)]
pub enum Case19 {
    Ast(AstCase),
    /// n groups (a)(b)..., then a backslash followed by `digits`; inputs are built from the expected reading
    Digits { ngroups: u32, digits: String, nested: bool, flags: String, perturb: Vec<u16> },
}

const LETTERS: &[char] = &['a', 'b', 'c', 'd', 'e', 'f', 'g', 'h', 'j', 'k', 'l', 'm', 'n'];

/// the reading required by the statement: the longest number not exceeding the number of groups opened so far
pub fn read_backref(ngroups: u32, digits: &str) -> Option<(u32, String)> {
    let ds: Vec<u32> = digits.chars().map(|c| c.to_digit(10).unwrap()).collect();
    let mut n = ds[0];
    if n == 0 {
        return None;
    }
    let mut used = 1;
    while used < ds.len() {
        let m = n * 10 + ds[used];
        if m > ngroups {
            break;
        }
        n = m;
        used += 1;
    }
    if n > ngroups {
        return None;
    }
    Some((n, digits[used..].to_string()))
}

fn check_digits(ngroups: u32, digits: &str, nested: bool, flags: &str, perturb: &[u16], ctx: &mut Ctx) -> Verdict {
    // pattern: (a)(b)(c)... or ((a)(b)...) with the reference after all groups are closed
    let mut pattern = String::new();
    let mut nodes = vec![];
    let inner_n = if nested { ngroups - 1 } else { ngroups };
    for i in 0..inner_n {
        pattern.push('(');
        pattern.push(LETTERS[i as usize]);
        pattern.push(')');
        nodes.push(Node::cap(Node::Lit(LETTERS[i as usize])));
    }
    let mut root_nodes = if nested {
        pattern = format!("({pattern})");
        vec![Node::cap(Node::Cat(nodes))]
    } else {
        nodes
    };
    pattern.push('\\');
    pattern.push_str(digits);
    let reading = read_backref(ngroups, digits);
    let mut job = Job::new(Dialect::XPath, &pattern, flags);
    job.apis = API_IS_MATCH;
    // expected AST
    let expected_node = reading.as_ref().map(|(g, rest)| {
        root_nodes.push(Node::BackRef(*g));
        for c in rest.chars() {
            root_nodes.push(Node::Lit(c));
        }
        number_groups(&Node::Cat(vec![Node::Bol, Node::Cat(root_nodes.clone()), Node::Eol]))
    });
    let pattern = format!("^{pattern}$");
    job.pattern = pattern.clone();
    // inputs: the intended string, and perturbations of it
    let prefix: String = (0..inner_n).map(|i| LETTERS[i as usize]).collect();
    let mut inputs = vec![];
    if let Some((g, rest)) = &reading {
        let gtext: String = if nested {
            if *g == 1 {
                prefix.clone()
            } else {
                LETTERS[(*g - 2) as usize].to_string()
            }
        } else {
            LETTERS[(*g - 1) as usize].to_string()
        };
        let good = format!("{prefix}{gtext}{rest}");
        inputs.push(good.clone());
        inputs.push(good.to_uppercase());
        inputs.push(format!("{prefix}{}{rest}", gtext.to_uppercase()));
        // alternative readings that must NOT be what the engine does
        for cut in 1..=digits.len() {
            if let Ok(n) = digits[..cut].parse::<u32>() {
                if n >= 1 && n <= ngroups {
                    let t: String = if nested {
                        if n == 1 {
                            prefix.clone()
                        } else {
                            LETTERS[(n - 2) as usize].to_string()
                        }
                    } else {
                        LETTERS[(n - 1) as usize].to_string()
                    };
                    inputs.push(format!("{prefix}{t}{}", &digits[cut..]));
                }
            }
        }
        let cs: Vec<char> = good.chars().collect();
        for p in perturb {
            let mut v = cs.clone();
            let i = ((*p as usize) * v.len()) >> 16;
            v[i] = if v[i] == 'a' { 'b' } else { 'a' };
            inputs.push(v.into_iter().collect());
        }
    } else {
        inputs.push(prefix.clone());
    }
    inputs.sort();
    inputs.dedup();
    job.inputs = inputs.clone();
    let res = ctx.w.run(&job);
    let out = match &res {
        JobResult::Done(o) => o,
        JobResult::Hang => return Verdict::Skip("hang"),
        JobResult::Died(_) => return Verdict::Skip("died"),
    };
    ctx.obs.label("part:multi-digit");
    let detail = format!("pattern={pattern:?} flags={flags:?} groups={ngroups} digits={digits:?} required reading={reading:?}");
    match (&out.compile, &expected_node) {
        (Res::Panic(_), _) => Verdict::Skip("panic"),
        (Res::Err(ErrKind::Syntax), None) => {
            ctx.obs.label("multi-digit:rejected(no such group)");
            ctx.obs.eval(1);
            Verdict::Pass
        }
        (Res::Err(k), Some(_)) => Verdict::Fail(Failure { sub: "multi-digit-accept".into(), expected: "pattern accepted".into(), actual: format!("{k:?}"), detail }),
        (Res::Ok(_), None) => Verdict::Fail(Failure { sub: "multi-digit-reject".into(), expected: "Syntax error (no such group)".into(), actual: "accepted".into(), detail }),
        (Res::Err(k), None) => Verdict::Fail(Failure { sub: "multi-digit-reject".into(), expected: "Error::Syntax".into(), actual: format!("{k:?}"), detail }),
        (Res::Ok(_), Some(node)) => {
            let f = oracle_lang::Flags::from_str(flags);
            for (i, input) in inputs.iter().enumerate() {
                let engine = match out.per_input[i].is_match.as_ref().unwrap() {
                    Res::Ok(b) => *b,
                    _ => return Verdict::Skip("panic"),
                };
                let s = chars(input);
                let want = match oracle_lang::is_match(node, &s, f) {
                    Tri::True => true,
                    Tri::False => false,
                    _ => continue,
                };
                ctx.obs.eval(1);
                ctx.obs.label(if want { "multi-digit:oracle=true" } else { "multi-digit:oracle=false" });
                if digits.len() >= 2 {
                    ctx.obs.nontrivial(&(&pattern, flags, input));
                }
                if engine != want {
                    return Verdict::Fail(Failure { sub: "multi-digit-reading".into(), expected: format!("is_match({input:?})={want}"), actual: format!("{engine}"), detail });
                }
            }
            ctx.obs.sample(|| json!({"pattern": pattern, "flags": flags, "inputs": inputs}));
            Verdict::Pass
        }
    }
}

fn check(case: &Case19, ctx: &mut Ctx) -> Verdict {
    match case {
        Case19::Digits { ngroups, digits, nested, flags, perturb } => check_digits(*ngroups, digits, *nested, flags, perturb, ctx),
        Case19::Ast(ast) => {
            let node = resolve(&ast.node);
            if !node.has_backref() {
                ctx.obs.label("skipped:no-backref-after-resolve");
                return Verdict::Pass;
            }
            ctx.obs.label("part:ast");
            if oracle_lang::backref_into_loop(&node) {
                ctx.obs.label("backref-into-loop");
            }
            if node.n_groups() >= 10 {
                ctx.obs.label("groups>=10");
            }
            let v1 = check_is_match("C19", ast, ctx);
            if matches!(v1, Verdict::Fail(_) | Verdict::Skip(_)) {
                return v1;
            }
            let v2 = check_spans("C19", ast, ctx);
            if matches!(v2, Verdict::Fail(_)) {
                return v2;
            }
            let v3 = check_captures("C19", ast, ctx);
            if matches!(v3, Verdict::Fail(_)) {
                return v3;
            }
            for v in [v1, v2, v3] {
                if let Verdict::Known(_) = v {
                    return v;
                }
            }
            Verdict::Pass
        }
    }
}

/// patterns built around groups and references to them
fn backref_strategy() -> BoxedStrategy<Node> {
    let lit = prop::sample::select(vec!['a', 'b', 'A']).prop_map(Node::Lit);
    let small = prop_oneof![
        4 => lit.clone(),
        1 => Just(Node::Dot),
        2 => (lit.clone(), lit.clone()).prop_map(|(a, b)| Node::Alt(vec![a, b])),
        2 => (lit.clone(), gen::quant_strategy(true, 2)).prop_map(|(b, (min, max, greedy, brace))| Node::Rep { body: Box::new(b), min, max, greedy, brace }),
        1 => (lit.clone(), lit.clone()).prop_map(|(a, b)| Node::Cat(vec![a, b])),
        1 => Just(Node::Empty),
    ];
    let group = small.clone().prop_map(Node::cap);
    let bref = (0u32..65536).prop_map(Node::BackRef);
    let term = prop_oneof![
        4 => group.clone(),
        4 => bref.clone(),
        2 => small.clone(),
        // optional group, group in an alternative, nested group, group in a repetition
        2 => group.clone().prop_map(|g| Node::rep(g, 0, Some(1), true)),
        2 => (group.clone(), small.clone()).prop_map(|(g, s)| Node::ncap(Node::Alt(vec![g, s]))),
        2 => (small.clone(), group.clone()).prop_map(|(s, g)| Node::ncap(Node::Alt(vec![s, g]))),
        1 => (group.clone(), small.clone()).prop_map(|(g, s)| Node::cap(Node::Cat(vec![g, s]))),
        2 => (group.clone(), gen::quant_strategy(true, 2)).prop_map(|(b, (min, max, greedy, brace))| Node::Rep { body: Box::new(b), min, max, greedy, brace }),
        1 => (group.clone(), bref.clone(), gen::quant_strategy(true, 2)).prop_map(|(g, r, (min, max, greedy, brace))| Node::Rep { body: Box::new(Node::ncap(Node::Cat(vec![g, r]))), min, max, greedy, brace }),
        1 => (bref.clone(), gen::quant_strategy(true, 2)).prop_map(|(b, (min, max, greedy, brace))| Node::Rep { body: Box::new(b), min, max, greedy, brace }),
    ];
    (prop::bool::weighted(0.4), group, prop::collection::vec(term, 1..5), prop::bool::weighted(0.4))
        .prop_map(|(bol, g, mut v, eol)| {
            v.insert(0, g);
            if bol {
                v.insert(0, Node::Bol);
            }
            if eol {
                v.push(Node::Eol);
            }
            Node::Cat(v)
        })
        .boxed()
}

/// Two ways of reaching the same input position with different captures, followed by a term that can match
/// empty and a back-reference: whether the rest matches depends on the capture, not only on the position.
fn convergent_paths() -> BoxedStrategy<Node> {
    let l = |c: char| Node::Lit(c);
    let group = prop::sample::select(vec![
        Node::cap(Node::Alt(vec![l('a'), Node::Cat(vec![l('a'), l('b')])])),
        Node::cap(Node::Alt(vec![Node::Cat(vec![l('a'), l('b')]), l('a')])),
        Node::cap(Node::Alt(vec![l('a'), Node::Cat(vec![l('a'), l('a')])])),
        Node::cap(Node::rep(l('a'), 1, Some(2), true)),
        Node::cap(Node::rep(l('a'), 1, Some(2), false)),
        Node::ncap(Node::Alt(vec![Node::cap(l('a')), l('a')])),
        Node::ncap(Node::Alt(vec![l('a'), Node::cap(l('a'))])),
        Node::cap(Node::Alt(vec![l('a'), Node::Empty])),
        Node::cap(Node::rep(l('a'), 0, Some(1), true)),
        // two groups that can split the same run of text in different ways
        Node::Cat(vec![Node::cap(Node::rep(l('a'), 0, None, true)), Node::cap(Node::rep(l('a'), 0, None, true))]),
        Node::Cat(vec![Node::cap(Node::rep(l('a'), 0, Some(1), true)), Node::cap(Node::rep(l('a'), 0, None, true))]),
        Node::Cat(vec![Node::cap(Node::Alt(vec![l('a'), Node::Cat(vec![l('a'), l('a')])])), Node::cap(Node::rep(l('a'), 0, Some(1), true))]),
        Node::Cat(vec![Node::cap(Node::rep(l('a'), 0, None, false)), Node::cap(Node::rep(l('a'), 0, None, true))]),
    ]);
    let resync = prop::sample::select(vec![
        Node::ncap(Node::Alt(vec![Node::Cat(vec![l('b'), l('c')]), l('c')])),
        Node::ncap(Node::Alt(vec![l('c'), Node::Cat(vec![l('b'), l('c')])])),
        Node::ncap(Node::Alt(vec![Node::Cat(vec![l('a'), l('c')]), l('c')])),
        Node::rep(l('b'), 0, Some(1), true),
        Node::rep(l('a'), 0, Some(1), true),
        Node::Empty,
        l('c'),
    ]);
    let nullable = prop::sample::select(vec![
        Node::rep(Node::ncap(Node::Alt(vec![l('x'), Node::Cat(vec![l('y'), l('y')])])), 0, None, true),
        Node::rep(Node::ncap(Node::Alt(vec![l('x'), Node::Cat(vec![l('y'), l('y')])])), 0, Some(1), true),
        Node::rep(Node::ncap(Node::Alt(vec![Node::Cat(vec![l('c'), l('d')]), l('e')])), 0, None, true),
        Node::rep(Node::ncap(Node::Alt(vec![l('x'), Node::Cat(vec![l('y'), l('y')])])), 0, None, false),
        Node::rep(Node::cap(Node::Alt(vec![l('x'), Node::Cat(vec![l('x'), l('y')])])), 0, Some(2), true),
        Node::ncap(Node::Alt(vec![Node::Empty, l('x')])),
        Node::rep(l('x'), 0, None, true),
    ]);
    (prop::bool::weighted(0.7), group, resync, nullable, prop::collection::vec((0u32..65536).prop_map(Node::BackRef), 1..3), prop::bool::weighted(0.7)).prop_map(|(bol, g, r, n, refs, eol)| {
        let mut v = vec![];
        if bol {
            v.push(Node::Bol);
        }
        v.push(g);
        v.push(r);
        v.push(n);
        v.extend(refs);
        if eol {
            v.push(Node::Eol);
        }
        Node::Cat(v)
    })
    .boxed()
}

fn many_groups_backref() -> BoxedStrategy<Node> {
    let g = prop::sample::select(vec!['a', 'b', 'A']).prop_map(|c| Node::cap(Node::Lit(c)));
    (prop::collection::vec(g, 10..13), prop::collection::vec((0u32..65536).prop_map(Node::BackRef), 1..3))
        .prop_map(|(mut gs, refs)| {
            gs.extend(refs);
            Node::Cat(gs)
        })
        .boxed()
}

impl Prop for C19 {
    type Case = Case19;
    fn id(&self) -> &'static str {
        "C19"
    }
    fn parts(&self, tier: Tier) -> Vec<Part<Case19>> {
        let s1 = (backref_strategy(), gen::flags_strategy("i"), gen::raw_inputs(10, 7))
            .prop_map(|(node, flags, inputs)| Case19::Ast(AstCase { node, flags, inputs: Inputs::Raw(inputs) }))
            .boxed();
        let mut cfg = GenCfg::basic(&['a', 'b', 'A']);
        cfg.w_backref = 8;
        cfg.w_esc = 0;
        cfg.w_class = 0;
        cfg.w_dot = 1;
        let s2 = (gen::node_strategy(&cfg), gen::flags_strategy("i"), gen::raw_inputs(10, 7))
            .prop_map(|(node, flags, inputs)| Case19::Ast(AstCase { node, flags, inputs: Inputs::Raw(inputs) }))
            .boxed();
        let s3 = (many_groups_backref(), gen::flags_strategy("i"), gen::raw_inputs(6, 14))
            .prop_map(|(node, flags, inputs)| Case19::Ast(AstCase { node, flags, inputs: Inputs::Raw(inputs) }))
            .boxed();
        let digits = prop::collection::vec(0u32..10, 1..=3).prop_map(|v| v.iter().map(|d| char::from_digit(*d, 10).unwrap()).collect::<String>());
        let s4 = (1u32..=13, digits, any::<bool>(), gen::flags_strategy("i"), prop::collection::vec(any::<u16>(), 0..3))
            .prop_map(|(ngroups, digits, nested, flags, perturb)| Case19::Digits { ngroups, digits, nested: nested && ngroups >= 2, flags, perturb })
            .boxed();
        let s5 = (convergent_paths(), gen::flags_strategy("i"), gen::raw_inputs(12, 7))
            .prop_map(|(node, flags, inputs)| Case19::Ast(AstCase { node, flags, inputs: Inputs::Raw(inputs) }))
            .boxed();
        vec![
            Part { name: "convergent-paths".into(), strategy: s5, cases: tier.pick(60_000, 1_000_000) },
            Part { name: "backref-shapes".into(), strategy: s1, cases: tier.pick(150_000, 3_000_000) },
            Part { name: "random-with-backrefs".into(), strategy: s2, cases: tier.pick(100_000, 2_000_000) },
            Part { name: "many-groups".into(), strategy: s3, cases: tier.pick(20_000, 300_000) },
            Part { name: "multi-digit".into(), strategy: s4, cases: tier.pick(30_000, 300_000) },
            Part {
                name: "scaled".into(),
                strategy: super::c01::scaled_part(&{
                    let mut c = cfg.clone();
                    c.w_backref = 6;
                    c
                }, "i")
                .prop_map(Case19::Ast)
                .boxed(),
                cases: tier.pick(30_000, 400_000),
            },
        ]
    }
    fn enumerations(&self, tier: Tier) -> Vec<(String, String, Box<dyn Iterator<Item = Case19> + Send>)> {
        // every small pattern with groups and back-references over two letters, on every short input
        let cfg = crate::enumerate::EnumCfg {
            atoms: vec![Node::Lit('a'), Node::Lit('b'), Node::Dot, Node::BackRef(40000)],
            quants: vec![(0, Some(1), true), (0, None, true), (1, None, true), (2, Some(2), true), (0, Some(1), false), (1, None, false)],
            cap: true,
            noncap: false,
            alt: true,
            backref: true,
        };
        let size = tier.pick(6, 7);
        let nodes: Vec<Node> = crate::enumerate::up_to(&cfg, size).into_iter().filter(|n| resolve(n).has_backref()).collect();
        let inputs = crate::enumerate::inputs(&['a', 'b'], tier.pick(4, 5));
        let scope = format!(
            "all {} ASTs of size <= {} over atoms {{a,b,.,\\first,\\last}} with capturing groups, alternation and quantifiers {{?,*,+,{{2}},??,+?}} that contain a back-reference after resolution x all {} inputs over {{a,b}} of length <= {} x flags {{'', i}}",
            nodes.len(),
            size,
            inputs.len(),
            tier.pick(4, 5)
        );
        let it = nodes.into_iter().flat_map(move |node| {
            let inputs = inputs.clone();
            ["", "i"].into_iter().map(move |f| Case19::Ast(AstCase { node: node.clone(), flags: f.to_string(), inputs: Inputs::Lit(inputs.clone()) }))
        });
        vec![("exhaustive-small".into(), scope, Box::new(it))]
    }
    fn check(&self, case: &Case19, ctx: &mut Ctx) -> Verdict {
        check(case, ctx)
    }
    fn describe(&self, case: &Case19) -> Value {
        match case {
            Case19::Ast(a) => a.describe(Dialect::XPath, super::c02::EXTRA),
            Case19::Digits { ngroups, digits, nested, flags, .. } => json!({"groups": ngroups, "digits": digits, "nested": nested, "flags": flags}),
        }
    }
    fn rule(&self) -> String {
        "evaluation = is_match / span list / group texts of one (pattern with back-references, flags over {i}, input over {a,b,A}) compared with R1 (all match paths with capture environments; non-participating group = empty string; both capture readings accepted when the referenced group sits in a loop) and with R2 (strict clause); plus the multi-digit reading (n groups followed by \\ and 1-3 digits must behave as the longest number not exceeding n followed by literal digits, or be rejected when the first digit exceeds n); non-trivial = as in C01/C02/C03 restricted to patterns that contain a back-reference after resolution; distinct = distinct (pattern, flags, input)".into()
    }
    fn guards(&self) -> Vec<Guard> {
        vec![
            Guard { label: "part:ast".into(), of: "".into(), min_fraction: 0.4 },
            Guard { label: "oracle=true".into(), of: "".into(), min_fraction: 0.5 },
            Guard { label: "groups>=10".into(), of: "".into(), min_fraction: 0.02 },
            Guard { label: "multi-digit:oracle=true".into(), of: "part:multi-digit".into(), min_fraction: 0.5 },
        ]
    }
    fn min_nontrivial(&self, tier: Tier) -> u64 {
        tier.pick(2000, 20000)
    }
}
