//! C06 — every call terminates and iterators are finite.
use super::common::*;
use crate::ast::*;
use crate::driver::*;
use crate::gen::{self, GenCfg};
use crate::proto::*;
use proptest::prelude::*;
use serde_json::Value;

pub struct C06;

fn dangerous_cfg() -> GenCfg {
    let mut cfg = GenCfg::basic(&['a', 'b', 'c']);
    cfg.w_lit = 8;
    cfg.w_dot = 1;
    cfg.w_class = 1;
    cfg.w_esc = 0;
    cfg.w_anchor = 4;
    cfg.w_backref = 3;
    cfg.w_empty = 3;
    cfg.depth = 4;
    cfg.size = 12;
    cfg.counted_max = 3;
    cfg.class.escapes = false;
    cfg
}

pub fn dangerous_part(tag: &'static str, dialect: Dialect) -> BoxedStrategy<StrCase> {
    let cfg = dangerous_cfg();
    (gen::node_strategy(&cfg), gen::flags_strategy("ims"), gen::raw_inputs(4, 8))
        .prop_map(move |(node, flags, raw)| {
            let node = limit_rep_nesting(&resolve(&node), 2);
            let nested = rep_nesting(&node) >= 2;
            let pattern = render(&node, dialect);
            let f = crate::oracle_lang::Flags::from_str(&flags);
            let alpha = gen::input_alphabet(&node, f, &[]);
            let inputs = raw
                .iter()
                .map(|r| {
                    let r = if nested && r.len() > 6 { &r[..6] } else { &r[..] };
                    gen::materialize_input(r, &alpha)
                })
                .collect();
            StrCase { dialect, pattern, flags, inputs, replacements: vec!["[$0]".into()], tag: tag.into() }
        })
        .boxed()
}

/// quantifier-on-quantifier shapes built directly: every quantifier form over bodies that are nullable,
/// zero-width, fail at the first attempt, or are back-references to empty captures
pub fn shapes_part() -> BoxedStrategy<StrCase> {
    let body = prop::sample::select(vec![
        "a?", "a*", "(?:a|)", "(?:|a)", "^", "$", "(?:^)", "(?:^^)", "()", "(?:)", "(a?)", "(?:a|bb)", "(?:a|b)*", "(?:a*)*", "(a*)+", "a{0}", "(?:a{0,2})",
        "(?:$|a)", "(?:a?b?)", "\\1", "(?:\\1)", "(?:a\\1)", "(?:b|\\1)", "(?:a*?)", "(?:a+?)", "(?:^|a)", ".*", "(.*)", "(?:.|)", "[ab]?", "(?:a|b|)",
    ]);
    let quant = prop::sample::select(vec![
        "?", "*", "+", "{0}", "{1}", "{2}", "{0,1}", "{0,2}", "{1,3}", "{2,}", "{0,}", "{3}", "??", "*?", "+?", "{2}?", "{0,2}?", "{1,3}?", "{2,}?", "{0,}?",
    ]);
    let piece = (body, quant).prop_map(|(b, q)| {
        let needs = !(b.starts_with('(') && b.ends_with(')')) && b.chars().count() > 1 && !(b.starts_with('\\') && b.len() == 2) && !b.starts_with('[');
        if needs {
            format!("(?:{b}){q}")
        } else {
            format!("{b}{q}")
        }
    });
    let lit = prop::sample::select(vec!["", "a", "b", "c", "1", "^", "$", "(a)", "(b)?", "(a|b)"]);
    (lit.clone(), prop::collection::vec(piece, 1..=3), lit, 0u8..3, gen::flags_strategy("ims"), gen::raw_inputs(4, 8))
        .prop_map(|(pre, pieces, post, outer, flags, raw)| {
            // a leading group so that back-references are legal
            // under an outer quantifier only one quantified piece: nested nullable loops in sequence make this
            // engine's (finite) backtracking explode, which bounded observation cannot tell from a hang
            let pieces: Vec<String> = if outer == 0 { pieces.into_iter().take(2).collect() } else { pieces.into_iter().take(1).collect() };
            let core = format!("{pre}{}{post}", pieces.join(""));
            let core = if core.contains("\\1") && !core[..core.find("\\1").unwrap()].contains("(a)") && !core[..core.find("\\1").unwrap()].contains("(b)?") {
                format!("(a?){core}")
            } else {
                core
            };
            let pattern = match outer {
                0 => core,
                1 => format!("(?:{core})*?c"),
                _ => format!("(?:{core})+c"),
            };
            let alpha = ['a', 'b', 'c', 'a', 'b', '\n', '1'];
            let cap = if outer == 0 { 6 } else { 4 };
            let inputs = raw.iter().map(|r| gen::materialize_input(if r.len() > cap { &r[..cap] } else { r }, &alpha)).collect();
            StrCase { dialect: Dialect::XPath, pattern, flags, inputs, replacements: vec!["[$0]".into()], tag: "quantifier-shapes".into() }
        })
        .boxed()
}

const B1_MS: u64 = 500;
const B2_MS: u64 = 10000;
/// a prefix that terminates in less than this, while one more character does not terminate within B2,
/// is not explained by exponential backtracking (growth > 5*10^3 per character; the steepest finite blow-up
/// seen on this engine, nested nullable loops, was about 3*10^3)
const FAST_US: u64 = 2_000;

fn judge_outcome(case: &StrCase, out: &Outcome, ctx: &mut Ctx) -> Option<String> {
    for (i, io) in out.per_input.iter().enumerate() {
        let n = case.inputs[i].chars().count();
        ctx.obs.eval(4);
        if let Some(Res::Ok(t)) = &io.tokens {
            ctx.obs.label("tokenize=ok");
            if t.capped || t.items.len() > n + 1 {
                return Some(format!("tokenize on {:?} yielded more than len+1 = {} tokens: {:?}", case.inputs[i], n + 1, t.items));
            }
            if !t.none_stable {
                return Some(format!("tokenize on {:?}: next() returned Some after None", case.inputs[i]));
            }
        }
        if let Some(Res::Ok(a)) = &io.analyze {
            if a.capped || a.items.len() > 2 * n + 1 {
                return Some(format!("analyze on {:?} yielded more than 2*len+1 = {} entries", case.inputs[i], 2 * n + 1));
            }
            if !a.none_stable {
                return Some(format!("analyze on {:?}: next() returned Some after None", case.inputs[i]));
            }
        }
        if !case.inputs[i].is_empty() {
            ctx.obs.nontrivial(&(&case.pattern, &case.flags, &case.inputs[i]));
        }
    }
    None
}

/// Decide whether a call that exceeded the budget is non-termination or (finite) exponential backtracking.
/// Delete single characters from the input for as long as some deletion still exceeds the budget; on the
/// minimal such input, if every single-character deletion returns quickly, the jump (> 10^4 for one character)
/// is not explained by exponential growth and the call is judged non-terminating.
fn confirm_hang(case: &StrCase, input: &str, ctx: &mut Ctx) -> Option<String> {
    // shrinking probes use a smaller budget than the verdict: a variant that needs more than BMIN_MS is "still slow"
    // and is shrunk further; only the final, minimal input is given the full B2_MS. Long inputs are first cut down in
    // chunks (halves, quarters, ...), then character by character.
    const BMIN_MS: u64 = 2_000;
    const MAX_PROBES: u32 = 400;
    let mut probes = 0u32;
    let mut slow_opt = |cs: &[char], ctx: &mut Ctx, budget: u64, no_opt: bool| -> Option<u64> {
        // None = did not return within the budget; Some(best wall time in us) otherwise
        let mut job = case.job();
        job.no_opt = no_opt;
        job.inputs = vec![cs.iter().collect()];
        match ctx.w.run_budget(&job, budget) {
            JobResult::Done(_) => {
                let mut t = ctx.w.last_wall_us;
                for _ in 0..2 {
                    if t < FAST_US {
                        break;
                    }
                    if let JobResult::Done(_) = ctx.w.run_budget(&job, budget) {
                        t = t.min(ctx.w.last_wall_us);
                    }
                }
                Some(t)
            }
            JobResult::Hang | JobResult::Died(_) => None,
        }
    };
    let mut cur: Vec<char> = input.chars().collect();
    let mut chunk = cur.len() / 2;
    while chunk >= 2 {
        let mut removed = false;
        let mut at = 0;
        while at + chunk <= cur.len() {
            let cand: Vec<char> = cur[..at].iter().chain(cur[at + chunk..].iter()).cloned().collect();
            probes += 1;
            if probes > MAX_PROBES {
                ctx.obs.label("hang-candidate:shrinking-gave-up");
                return None;
            }
            if slow_opt(&cand, ctx, BMIN_MS, false).is_none() {
                cur = cand;
                removed = true;
            } else {
                at += chunk;
            }
        }
        if !removed || chunk > cur.len() / 2 {
            chunk /= 2;
        }
    }
    loop {
        if cur.is_empty() {
            return Some(format!("calls on input {:?} (and on the empty input) did not return within {} ms of CPU", input, BMIN_MS));
        }
        let mut variants: Vec<Vec<char>> = (0..cur.len()).map(|i| cur.iter().enumerate().filter(|(j, _)| *j != i).map(|(_, c)| *c).collect()).collect();
        variants.sort();
        variants.dedup();
        let mut tmax = 0u64;
        let mut hanging: Option<Vec<char>> = None;
        for v in &variants {
            probes += 1;
            if probes > MAX_PROBES {
                ctx.obs.label("hang-candidate:shrinking-gave-up");
                return None;
            }
            match slow_opt(v, ctx, BMIN_MS, false) {
                Some(t) => tmax = tmax.max(t),
                None => {
                    hanging = Some(v.clone());
                    break;
                }
            }
        }
        match hanging {
            Some(v) => cur = v,
            None => {
                let cur_s: String = cur.iter().collect();
                // the verdict: the minimal input with the full budget, its neighbours all fast
                if slow_opt(&cur, ctx, B2_MS, false).is_some() {
                    return None;
                }
                // the neighbours must be fast without the compile-time shortcuts as well: a required literal (a
                // precondition) makes every neighbour of an exponential, but finite, case return at once
                let mut tmax_plain = 0u64;
                for v in &variants {
                    match slow_opt(v, ctx, BMIN_MS, true) {
                        Some(t) => tmax_plain = tmax_plain.max(t),
                        None => tmax_plain = u64::MAX,
                    }
                    if tmax_plain >= FAST_US {
                        break;
                    }
                }
                if tmax_plain >= FAST_US {
                    ctx.obs.label("hang-candidate:neighbours-slow-without-shortcuts");
                    return None;
                }
                if tmax < FAST_US {
                    return Some(format!(
                        "calls on input {:?} did not return within {} ms of CPU, while on every input with one character removed they return within {} us",
                        cur_s, B2_MS, tmax
                    ));
                }
                return None;
            }
        }
    }
}

/// every quantifier whose body contains an alternation or another quantifier gets the body `a` instead
fn tame(n: &Node) -> Node {
    fn plain(n: &Node) -> bool {
        match n {
            Node::Rep { .. } | Node::Alt(_) => false,
            Node::Group(_, b) => plain(b),
            Node::Cat(v) => v.iter().all(plain),
            _ => true,
        }
    }
    match n {
        Node::Rep { body, min, max, greedy, brace } => Node::Rep { body: Box::new(if plain(body) { (**body).clone() } else { Node::Lit('a') }), min: *min, max: *max, greedy: *greedy, brace: *brace },
        Node::Group(k, b) => Node::Group(*k, Box::new(tame(b))),
        Node::Cat(v) => Node::Cat(v.iter().map(tame).collect()),
        Node::Alt(v) => Node::Alt(v.iter().map(tame).collect()),
        other => other.clone(),
    }
}

/// huge lower bounds over terms that match the empty string at some positions only (they cannot be simplified
/// away at compile time): a correct engine does not iterate that many times over an empty match
pub fn huge_min_part() -> BoxedStrategy<StrCase> {
    let body = prop::sample::select(vec!["(?:b|^)", "(?:^|b)", "(?:$|a)", "(?:a|$)", "(?:a|\\1)", "(?:\\1|a)", "(?:^$|a)", "(b|^)", "(?:a|(?:^|$))", "(?:ab|^|c)"]);
    let n = prop::sample::select(vec!["1000", "65536", "2147483648", "4294967296", "9223372036854775807", "18446744073709551615"]);
    (body, n, 0u8..4, prop::sample::select(vec!["", "a", "b", "c"]), gen::flags_strategy("ms"), gen::raw_inputs(4, 6))
        .prop_map(|(b, n, form, tail, flags, raw)| {
            let q = match form {
                0 => format!("{{{n}}}"),
                1 => format!("{{{n},}}"),
                2 => format!("{{{n}}}?"),
                _ => format!("{{{n},}}?"),
            };
            let pattern = format!("(a?){b}{q}{tail}");
            let alpha = ['a', 'b', 'c', '\n', 'a', 'b'];
            let inputs = raw.iter().map(|r| gen::materialize_input(r, &alpha)).collect();
            StrCase { dialect: Dialect::XPath, pattern, flags, inputs, replacements: vec!["[$0]".into()], tag: "huge-minimum".into() }
        })
        .boxed()
}

pub fn check_termination(case: &StrCase, ctx: &mut Ctx) -> Verdict {
    let fail = |actual: String| {
        Verdict::Fail(Failure { sub: "termination".into(), expected: "every call returns; tokenize <= len+1 items, analyze <= 2*len+1, then None forever".into(), actual, detail: format!("{}", case.describe()) })
    };
    let job = case.job();
    ctx.obs.label(&format!("part:{}", case.tag));
    if case.pattern.contains('^') || case.pattern.contains('$') {
        // the same text read by the other dialect first, in the same worker thread (there ^ and $ are literals or
        // anchors the other way round): what the library remembers about a text must not decide whether the
        // iterators of this one end. The outcome of this step is not judged.
        let mut other = case.job();
        other.dialect = if other.dialect == Dialect::XPath { Dialect::Xsd } else { Dialect::XPath };
        other.inputs = vec![];
        let _ = ctx.w.run_budget(&other, B1_MS);
        ctx.obs.label("other-dialect-compiled-first");
    }
    match ctx.w.run_budget(&job, B1_MS) {
        JobResult::Done(out) => {
            if out.compile.ok().is_none() {
                ctx.obs.label("compile=err");
                return Verdict::Pass;
            }
            ctx.obs.label("compile=ok");
            if let Some(what) = judge_outcome(case, &out, ctx) {
                return fail(what);
            }
        }
        JobResult::Hang | JobResult::Died(_) if ctx.obs.frozen => {
            // while shrinking, exceeding the first budget is enough (the result is confirmed in full afterwards)
            return fail(format!("calls did not return within {} ms of CPU (shrinking; unconfirmed)", B1_MS));
        }
        JobResult::Hang | JobResult::Died(_) => {
            // (a worker that dies — stack overflow, or the 4 GB address-space cap hit by a loop that allocates
            // without end — is treated like one that does not return)
            // isolate: compile alone, then each input alone with the larger budget
            let mut j0 = case.job();
            j0.inputs = vec![];
            match ctx.w.run_budget(&j0, B2_MS) {
                JobResult::Hang => return fail(format!("compiling the pattern did not return within {} ms of CPU", B2_MS)),
                JobResult::Died(st) => return fail(format!("compiling the pattern killed the worker process ({st}): unbounded recursion or allocation")),
                JobResult::Done(_) => {}
            }
            for input in &case.inputs {
                let mut j = case.job();
                j.inputs = vec![input.clone()];
                match ctx.w.run_budget(&j, B2_MS) {
                    JobResult::Done(out) => {
                        ctx.obs.label("slow-but-finite");
                        let single = StrCase { inputs: vec![input.clone()], ..case.clone() };
                        if let Some(what) = judge_outcome(&single, &out, ctx) {
                            return fail(what);
                        }
                    }
                    JobResult::Hang | JobResult::Died(_) => match confirm_hang(case, input, ctx) {
                        Some(what) => return fail(what),
                        None => {
                            ctx.obs.label("exponential-backtracking(not judged)");
                        }
                    },
                }
            }
        }
    }
    ctx.obs.sample(|| case.describe());
    Verdict::Pass
}

impl Prop for C06 {
    type Case = StrCase;
    fn id(&self) -> &'static str {
        "C06"
    }
    fn parts(&self, tier: Tier) -> Vec<Part<StrCase>> {
        vec![
            Part { name: "dangerous-ast".into(), strategy: dangerous_part("dangerous-ast", Dialect::XPath), cases: tier.pick(250_000, 5_000_000) },
            Part { name: "quantifier-shapes".into(), strategy: shapes_part(), cases: tier.pick(250_000, 5_000_000) },
            Part { name: "dangerous-ast-xsd".into(), strategy: dangerous_part("dangerous-ast-xsd", Dialect::Xsd), cases: tier.pick(50_000, 500_000) },
            Part { name: "huge-minimum".into(), strategy: huge_min_part(), cases: tier.pick(20_000, 200_000) },
            // long inputs (up to 160 characters), large counts, long literals: loops whose progress depends on a length
            Part {
                name: "scaled".into(),
                strategy: super::c01::scaled_part(&{
                    let mut c = GenCfg::basic(&['a', 'b', '\n', 'x']);
                    c.w_anchor = 5;
                    c
                }, "ims")
                .prop_map(|mut ast| {
                    // quantifiers over single characters only: with inputs this long, a quantifier over an alternation
                    // or over another quantifier is astronomically slow without being endless, which is not the question
                    ast.node = tame(&ast.node);
                    let m = ast.materialize(Dialect::XPath, &[]);
                    StrCase { dialect: Dialect::XPath, pattern: m.pattern, flags: ast.flags.clone(), inputs: m.inputs, replacements: vec!["x".into()], tag: "scaled".into() }
                })
                .boxed(),
                cases: tier.pick(20_000, 300_000),
            },
        ]
    }
    fn enumerations(&self, tier: Tier) -> Vec<(String, String, Box<dyn Iterator<Item = StrCase> + Send>)> {
        // every nested-quantifier pattern of C01's macro-atom scope: all four APIs must return on every short input
        let (name, scope, it) = super::c01::macro_enumeration(tier);
        let it = it.map(|ast| {
            let m = ast.materialize(Dialect::XPath, &[]);
            StrCase { dialect: Dialect::XPath, pattern: m.pattern, flags: String::new(), inputs: m.inputs, replacements: vec!["x".into()], tag: "exhaustive-nested-quantifiers".into() }
        });
        vec![(name, scope, Box::new(it))]
    }
    fn extra(&self, ctx: &mut Ctx) -> Vec<(String, Verdict, Option<StrCase>)> {
        // thorough tier: libFuzzer campaign with a short per-execution timeout; timeout artifacts (and iterator-bound
        // assertion crashes) are re-judged by check_termination
        if ctx.tier != Tier::Thorough {
            return vec![];
        }
        let seed = std::env::var("VERIF_SEED").ok().and_then(|s| s.parse().ok()).unwrap_or(0u64);
        let c = crate::fuzzrun::Campaign { name: "C06", target: "api", hooks: true, runs_per_job: 150_000, jobs: 12, timeout_s: 8, seed: seed + 77 };
        match crate::fuzzrun::run(&c, &[]) {
            Err(e) => {
                eprintln!("harness error: fuzz campaign: {e}");
                std::process::exit(2)
            }
            Ok((found, execs)) => {
                ctx.obs.label(&format!("libfuzzer:executions={execs}"));
                ctx.obs.label(&format!("libfuzzer:artifacts={}", found.len()));
                ctx.obs.eval(execs);
                for f in found {
                    let v = check_termination(&f.case, ctx);
                    if !matches!(v, Verdict::Fail(_)) {
                        println!("note: libFuzzer artifact ({}) did not fail when re-judged through the worker: {}", f.kind, f.case.describe());
                        ctx.obs.label(&format!("libfuzzer:artifact-not-confirmed:{}", f.kind));
                    }
                    if let Verdict::Fail(fl) = v {
                        return vec![(format!("libfuzzer-{}", f.kind), Verdict::Fail(Failure { detail: format!("{} (candidate found by libFuzzer, re-judged through the worker)", fl.detail), ..fl }), Some(f.case.clone()))];
                    }
                }
                vec![]
            }
        }
    }
    fn check(&self, case: &StrCase, ctx: &mut Ctx) -> Verdict {
        check_termination(case, ctx)
    }
    fn describe(&self, case: &StrCase) -> Value {
        case.describe()
    }
    fn max_shrink_iters(&self) -> u32 {
        150
    }
    fn rule(&self) -> String {
        "(patterns with ^ or $ are first compiled under the other dialect in the same worker thread, outcome not judged) evaluation = one API call (is_match, replace_all, tokenize and analyze driven to exhaustion plus three extra next() calls) under a CPU-time watchdog; non-trivial = compiled pattern from the quantifier-heavy generators on a non-empty input; distinct = distinct (pattern, flags, input). Bounded observation: a call counts as non-terminating when it exceeds 0.5 s of CPU with all inputs, then with that input alone, and, on the minimal input still exceeding 2 s (found by deleting chunks, then single characters), the call exceeds 10 s while every single-character deletion returns in < 2 ms both normally and with all compile-time optimisations off (so exponential but finite backtracking, which grows by a bounded factor per character, is not reported, even when a required-literal shortcut makes its neighbours return at once); normal cost < 1 ms, the maximum seen is reported as max_job_wall_us".into()
    }
    fn guards(&self) -> Vec<Guard> {
        vec![Guard { label: "compile=ok".into(), of: "".into(), min_fraction: 0.5 }, Guard { label: "tokenize=ok".into(), of: "".into(), min_fraction: 0.2 }]
    }
    fn assumptions(&self) -> Vec<String> {
        vec!["termination is observed, not proved: inputs <= 8 characters (<= 160 in the scaled part, whose quantifiers are over single characters), quantifier nesting <= 2 (3 in the shapes part), counted bounds <= 3 (<= 40 in the scaled part)".into()]
    }
}
