//! C17 — the XSD dialect rejects XPath extensions and agrees on the common subset.
use super::c08::diff_outcomes;
use super::common::*;
use crate::ast::*;
use crate::driver::*;
use crate::gen::{self, GenCfg};
use crate::oracle_lang::{self, Tri};
use crate::proto::*;
use proptest::prelude::*;
use serde::{Deserialize, Serialize};
use serde_json::{json, Value};

pub struct C17;

#[derive(Clone, Debug, PartialEq, Eq, Hash, Serialize, Deserialize)]
pub struct Case17 {
    pub ast: AstCase,
    /// render with capturing wrappers only (XSD-clean text) instead of (?: ... )
    pub clean: bool,
    pub q: bool,
}

fn anchors_to_literals(n: &Node) -> Node {
    match n {
        Node::Bol => Node::Lit('^'),
        Node::Eol => Node::Lit('$'),
        Node::Group(k, b) => Node::Group(*k, Box::new(anchors_to_literals(b))),
        Node::Alt(v) => Node::Alt(v.iter().map(anchors_to_literals).collect()),
        Node::Cat(v) => Node::Cat(v.iter().map(anchors_to_literals).collect()),
        Node::Rep { body, min, max, greedy, brace } => Node::Rep { body: Box::new(anchors_to_literals(body)), min: *min, max: *max, greedy: *greedy, brace: *brace },
        other => other.clone(),
    }
}

fn check(case: &Case17, ctx: &mut Ctx) -> Verdict {
    let node = resolve(&case.ast.node);
    let flags_s = if case.q { format!("{}q", case.ast.flags) } else { case.ast.flags.clone() };
    let pattern = render(&node, if case.clean { Dialect::Xsd } else { Dialect::XPath });
    let m = case.ast.materialize(Dialect::XPath, &['^', '$']);
    let mut tags: Vec<&str> = vec![];
    if node.has_reluctant() {
        tags.push("reluctant");
    }
    if pattern.contains("(?:") {
        tags.push("non-capturing-group");
    }
    if node.has_backref() {
        tags.push("back-reference");
    }
    if pattern.contains("\\$") {
        tags.push("escape-\\$");
    }
    let mut jx = Job::new(Dialect::XPath, &pattern, &flags_s);
    jx.inputs = m.inputs.clone();
    jx.replacements = vec!["[$0]".into()];
    let mut js = jx.clone();
    js.dialect = Dialect::Xsd;
    let (a, b) = match (ctx.w.run(&jx), ctx.w.run(&js)) {
        (JobResult::Done(a), JobResult::Done(b)) => (a, b),
        (JobResult::Hang, _) | (_, JobResult::Hang) => return Verdict::Skip("hang"),
        _ => return Verdict::Skip("died"),
    };
    if a.compile.is_panic() || b.compile.is_panic() {
        return Verdict::Skip("panic");
    }
    ctx.obs.eval(2);
    let detail = format!("pattern={pattern:?} flags={flags_s:?} xpath-only constructs={tags:?}");
    // flag q: literal under xpath, InvalidFlags under xsd, whatever the pattern looks like
    if case.q {
        ctx.obs.label("flag-q");
        ctx.obs.nontrivial(&(&pattern, &flags_s));
        return match (&a.compile, &b.compile) {
            (Res::Ok(_), Res::Err(ErrKind::InvalidFlags)) => Verdict::Pass,
            (x, y) => Verdict::Fail(Failure { sub: "flag-q".into(), expected: "xpath: accepted, xsd: Err(InvalidFlags)".into(), actual: format!("xpath: {:?}, xsd: {:?}", x.err(), y.err()), detail }),
        };
    }
    if a.compile.ok().is_none() {
        // not a pattern of the XPath dialect either (cannot happen for rendered ASTs): C07's business
        return Verdict::Skip("xpath-rejects");
    }
    if !tags.is_empty() {
        for t in &tags {
            ctx.obs.label(&format!("xpath-only:{t}"));
        }
        ctx.obs.nontrivial(&(&pattern, &flags_s));
        return match &b.compile {
            Res::Err(ErrKind::Syntax) => Verdict::Pass,
            other => Verdict::Fail(Failure { sub: "xsd-must-reject".into(), expected: "Err(Syntax) from Regex::xsd".into(), actual: format!("{:?}", other.err().map(|e| format!("{e:?}")).unwrap_or("accepted".into())), detail }),
        };
    }
    // common subset: xsd must accept
    if b.compile.ok().is_none() {
        return Verdict::Fail(Failure { sub: "xsd-must-accept".into(), expected: "accepted by Regex::xsd (no XPath-only construct)".into(), actual: format!("{:?}", b.compile.err()), detail });
    }
    if super::c05::bad_in_outcome(&a).is_some() || super::c05::bad_in_outcome(&b).is_some() {
        return Verdict::Skip("panic");
    }
    let has_anchor_chars = node.has_anchor() || node.any(&|n| matches!(n, Node::Lit('^') | Node::Lit('$')));
    if !has_anchor_chars {
        ctx.obs.label("common-subset:identical-results");
        ctx.obs.eval(2 * 4 * m.inputs.len() as u64);
        if a.per_input.iter().any(|x| matches!(x.is_match, Some(Res::Ok(true)))) {
            ctx.obs.label("common-subset:some-input-matches");
            ctx.obs.nontrivial(&(&pattern, &flags_s));
        }
        if let Some(d) = diff_outcomes(&a, &b, &m.inputs) {
            let d = d.replace("optimised", "xpath").replace("unoptimised", "xsd");
            return Verdict::Fail(Failure { sub: "dialects-differ".into(), expected: "identical results under both dialects".into(), actual: d, detail });
        }
    } else {
        // under xsd ^ and $ are ordinary characters
        ctx.obs.label("xsd:anchors-are-literals");
        let lit_node = anchors_to_literals(&node);
        let f = oracle_lang::Flags::from_str(&case.ast.flags);
        for (i, input) in m.inputs.iter().enumerate() {
            let engine = match b.per_input[i].is_match.as_ref().unwrap() {
                Res::Ok(x) => *x,
                _ => return Verdict::Skip("panic"),
            };
            let want = match oracle_lang::is_match(&lit_node, &chars(input), f) {
                Tri::True => true,
                Tri::False => false,
                _ => continue,
            };
            ctx.obs.eval(1);
            if want {
                ctx.obs.label("xsd:anchor-literal-matched");
                ctx.obs.nontrivial(&(&pattern, &flags_s, input));
            }
            if engine != want {
                let cut = b.per_input[i].any_cutoff() || b.compile_cutoffs > 0;
                let mut regions = vec![];
                if cut {
                    regions.push("force_progress_cutoff");
                }
                if let Some(id) = ctx.known.attribute("C17", &regions, if want { "engine=false,oracle=true" } else { "engine=true,oracle=false" }) {
                    return Verdict::Known(id);
                }
                return Verdict::Fail(Failure { sub: "xsd-anchor-literals".into(), expected: format!("xsd is_match({input:?}) = {want} (^ and $ match themselves)"), actual: format!("{engine}"), detail });
            }
        }
    }
    ctx.obs.sample(|| json!({"pattern": pattern, "flags": flags_s, "inputs": m.inputs, "xpath_only": tags}));
    Verdict::Pass
}

impl Prop for C17 {
    type Case = Case17;
    fn id(&self) -> &'static str {
        "C17"
    }
    fn enumerations(&self, tier: Tier) -> Vec<(String, String, Box<dyn Iterator<Item = Case17> + Send>)> {
        // C01's small scope under both dialects: it holds the XPath-only constructs (anchors, reluctant quantifiers,
        // back-references) as well as the common subset
        let size = tier.pick(4, 5);
        let nodes = crate::enumerate::up_to(&super::c01::enum_cfg(), size);
        let inputs = crate::enumerate::inputs(&['a', 'b', '\n'], 3);
        let scope = format!("all {} ASTs of size <= {} over the atoms and quantifiers of C01's first scope, rendered XSD-clean, x flags {{'', s, i}} x all {} inputs over {{a,b,LF}} of length <= 3, compiled under both dialects", nodes.len(), size, inputs.len());
        let it = nodes.into_iter().flat_map(move |node| {
            let inputs = inputs.clone();
            ["", "s", "i"].into_iter().map(move |f| Case17 { ast: AstCase { node: node.clone(), flags: f.to_string(), inputs: Inputs::Lit(inputs.clone()) }, clean: true, q: false })
        });
        vec![("exhaustive-small".into(), scope, Box::new(it))]
    }
    fn parts(&self, tier: Tier) -> Vec<Part<Case17>> {
        // XSD-clean: no reluctant quantifier, no back-reference, no explicit non-capturing group, capturing wrappers
        let mut clean = GenCfg::basic(&['a', 'b', 'c', '1']);
        clean.reluctant = false;
        clean.noncap = false;
        clean.w_backref = 0;
        clean.w_anchor = 0;
        let s1 = (gen::node_strategy(&clean), gen::flags_strategy("smi"), gen::raw_inputs(8, 8))
            .prop_map(|(node, flags, inputs)| Case17 { ast: AstCase { node, flags, inputs: Inputs::Raw(inputs) }, clean: true, q: false })
            .boxed();
        let mut with_anchors = clean.clone();
        with_anchors.w_anchor = 5;
        with_anchors.lits = vec!['a', 'b', '^'];
        let s2 = (gen::node_strategy(&with_anchors), gen::flags_strategy("smi"), gen::raw_inputs(8, 8))
            .prop_map(|(node, flags, inputs)| Case17 { ast: AstCase { node, flags, inputs: Inputs::Raw(inputs) }, clean: true, q: false })
            .boxed();
        // mixed: XPath-only constructs likely
        let mut mixed = GenCfg::basic(&['a', 'b', '$', '1']);
        mixed.w_backref = 2;
        mixed.size = 8;
        mixed.depth = 3;
        let s3 = (gen::node_strategy(&mixed), gen::flags_strategy("smi"), gen::raw_inputs(4, 6), prop::bool::weighted(0.5), prop::bool::weighted(0.1))
            .prop_map(|(node, flags, inputs, clean, q)| Case17 { ast: AstCase { node, flags, inputs: Inputs::Raw(inputs) }, clean, q })
            .boxed();
        vec![
            Part { name: "common-subset".into(), strategy: s1, cases: tier.pick(150_000, 3_000_000) },
            Part { name: "scaled".into(), strategy: super::c01::scaled_part(&clean, "smi").prop_map(|ast| Case17 { ast, clean: true, q: false }).boxed(), cases: tier.pick(20_000, 300_000) },
            Part { name: "anchors-as-literals".into(), strategy: s2, cases: tier.pick(80_000, 1_500_000) },
            Part { name: "xpath-extensions".into(), strategy: s3, cases: tier.pick(120_000, 2_000_000) },
        ]
    }
    fn check(&self, case: &Case17, ctx: &mut Ctx) -> Verdict {
        check(case, ctx)
    }
    fn describe(&self, case: &Case17) -> Value {
        let node = resolve(&case.ast.node);
        let m = case.ast.materialize(Dialect::XPath, &['^', '$']);
        json!({"pattern": render(&node, if case.clean { Dialect::Xsd } else { Dialect::XPath }), "flags": case.ast.flags, "q": case.q, "inputs": m.inputs})
    }
    fn rule(&self) -> String {
        "evaluation = one pattern text compiled with Regex::xpath and Regex::xsd: xsd must reject (Syntax; InvalidFlags for q) exactly when the text uses a reluctant quantifier, (?: , a back-reference or \\$ (tags computed from the AST / text); tag-free texts without ^ and $ must give identical results from all five APIs on 8 inputs; with ^ or $ the xsd result must equal R1 on the AST with the anchors replaced by literal characters; non-trivial = an XPath-only construct is present, or both accept and some input matches; distinct = distinct (pattern, flags[, input])".into()
    }
    fn guards(&self) -> Vec<Guard> {
        vec![
            Guard { label: "xpath-only:reluctant".into(), of: "".into(), min_fraction: 0.02 },
            Guard { label: "xpath-only:non-capturing-group".into(), of: "".into(), min_fraction: 0.02 },
            Guard { label: "xpath-only:back-reference".into(), of: "".into(), min_fraction: 0.01 },
            Guard { label: "xpath-only:escape-\\$".into(), of: "".into(), min_fraction: 0.01 },
            Guard { label: "flag-q".into(), of: "".into(), min_fraction: 0.01 },
            Guard { label: "common-subset:some-input-matches".into(), of: "".into(), min_fraction: 0.2 },
            Guard { label: "xsd:anchor-literal-matched".into(), of: "".into(), min_fraction: 0.05 },
        ]
    }
}
