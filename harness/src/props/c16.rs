//! C16 — regexes that match the empty string are rejected up front, and only those.
use super::common::*;
use crate::ast::*;
use crate::driver::*;
use crate::gen::{self, GenCfg};
use crate::oracle_lang::{self, Tri};
use crate::proto::*;
use proptest::prelude::*;
use serde_json::Value;

pub struct C16;

pub fn check_nullable(case: &AstCase, ctx: &mut Ctx) -> Verdict {
    let m = case.materialize(Dialect::XPath, &[]);
    let mut inputs = m.inputs.clone();
    inputs.push(String::new());
    let mut job = Job::new(Dialect::XPath, &m.pattern, &case.flags);
    job.inputs = inputs.clone();
    job.replacements = vec!["\u{1}$0\u{2}".into()];
    let res = ctx.w.run(&job);
    let out = match &res {
        JobResult::Done(o) => o,
        JobResult::Hang => return Verdict::Skip("hang"),
        JobResult::Died(_) => return Verdict::Skip("died"),
    };
    if out.compile.ok().is_none() {
        return Verdict::Skip("compile_err");
    }
    if super::c05::bad_in_outcome(out).is_some() {
        return Verdict::Skip("panic");
    }
    let oracle = match oracle_lang::matches_empty(&m.node, m.flags) {
        Tri::True => true,
        Tri::False => false,
        Tri::Either => {
            ctx.obs.label("oracle=either(capture reading)");
            return Verdict::Pass;
        }
        Tri::Unknown => return Verdict::Skip("oracle-budget"),
    };
    ctx.obs.label(if oracle { "oracle=nullable" } else { "oracle=non-nullable" });
    let nontrivial = m.node.any(&|n| matches!(n, Node::Rep { .. } | Node::Bol | Node::Eol | Node::Empty | Node::BackRef(_)));
    for (i, io) in out.per_input.iter().enumerate() {
        let input = &inputs[i];
        let n = input.chars().count();
        ctx.obs.eval(3);
        let fail = |sub: &str, expected: String, actual: String| {
            Verdict::Fail(Failure { sub: sub.into(), expected, actual, detail: format!("pattern={:?} flags={:?} input={:?} oracle: matches empty string = {oracle}", m.pattern, case.flags, input) })
        };
        let r = &io.replace[0];
        let a = io.analyze.as_ref().unwrap();
        let t = io.tokens.as_ref().unwrap();
        let r_null = r.err() == Some(&ErrKind::MatchesEmptyString);
        let a_null = a.err() == Some(&ErrKind::MatchesEmptyString);
        let t_null = t.err() == Some(&ErrKind::MatchesEmptyString);
        // tokenize("") is Ok([]) for every regex
        if input.is_empty() {
            match t {
                Res::Ok(it) if it.items.is_empty() => {}
                other => return fail("tokenize-empty-input", "Ok(no tokens)".into(), format!("{other:?}")),
            }
        }
        let mut regions = vec![];
        if io.any_cutoff() || out.compile_cutoffs > 0 {
            regions.push("force_progress_cutoff");
        }
        let expect_t = oracle && !input.is_empty();
        if r_null != oracle || a_null != oracle || t_null != expect_t {
            let symptom = if oracle { "engine=non-nullable,oracle=nullable" } else { "engine=nullable,oracle=non-nullable" };
            if let Some(id) = ctx.known.attribute("C16", &regions, symptom) {
                return Verdict::Known(id);
            }
            return fail(
                "matches-empty-string",
                format!("MatchesEmptyString from replace_all/analyze: {oracle}, from tokenize: {expect_t}"),
                format!("replace_all={r_null} analyze={a_null} tokenize={t_null}"),
            );
        }
        if !oracle {
            // no zero-length match may be reported
            if let Res::Ok(s) = r {
                if let Some(spans) = marker_spans(s) {
                    if spans.iter().any(|(x, y)| x == y) {
                        return fail("zero-length-match", "no zero-length match".into(), format!("replace_all spans {spans:?}"));
                    }
                }
            }
            if let Res::Ok(it) = a {
                let spans = analyze_spans(&it.items);
                if spans.iter().any(|(x, y)| x == y) {
                    return fail("zero-length-match", "no zero-length match".into(), format!("analyze spans {spans:?}"));
                }
                if it.capped || it.items.len() > 2 * n + 1 {
                    return fail("iterator-size", format!("<= {} entries", 2 * n + 1), format!("{}", it.items.len()));
                }
            }
            if let Res::Ok(it) = t {
                if it.capped || it.items.len() > n + 1 {
                    return fail("iterator-size", format!("<= {} tokens", n + 1), format!("{}", it.items.len()));
                }
            }
        }
        if nontrivial {
            ctx.obs.nontrivial(&(&m.pattern, &case.flags, input));
        }
    }
    ctx.obs.sample(|| case.describe(Dialect::XPath, &[]));
    Verdict::Pass
}

impl Prop for C16 {
    type Case = AstCase;
    fn id(&self) -> &'static str {
        "C16"
    }
    fn parts(&self, tier: Tier) -> Vec<Part<AstCase>> {
        let mut cfg = GenCfg::basic(&['a', 'b', 'A']);
        cfg.w_empty = 3;
        cfg.w_anchor = 5;
        cfg.w_backref = 4;
        cfg.w_esc = 0;
        let s = (gen::node_strategy(&cfg), gen::flags_strategy("ims"), gen::raw_inputs(5, 6))
            .prop_map(|(node, flags, inputs)| AstCase { node, flags, inputs: Inputs::Raw(inputs) })
            .boxed();
        // mostly-nullable shapes: sequences of optional / starred / anchor terms
        let opt = prop_oneof![
            prop::sample::select(vec!['a', 'b']).prop_map(|c| Node::rep(Node::Lit(c), 0, Some(1), true)),
            prop::sample::select(vec!['a', 'b']).prop_map(|c| Node::rep(Node::cap(Node::Lit(c)), 0, None, true)),
            prop::sample::select(vec!['a', 'b']).prop_map(|c| Node::rep(Node::Lit(c), 0, None, false)),
            Just(Node::Bol),
            Just(Node::Eol),
            Just(Node::Empty),
            (0u32..65536).prop_map(Node::BackRef),
            prop::sample::select(vec!['a', 'b']).prop_map(|c| Node::ncap(Node::Alt(vec![Node::Lit(c), Node::Empty]))),
            prop::sample::select(vec!['a', 'b']).prop_map(|c| Node::cap(Node::Alt(vec![Node::Empty, Node::Lit(c)]))),
            prop::sample::select(vec!['a', 'b']).prop_map(|c| Node::rep(Node::Lit(c), 1, None, true)),
            prop::sample::select(vec!['a', 'b']).prop_map(|c| Node::rep(Node::cap(Node::rep(Node::Lit(c), 0, None, true)), 1, None, true)),
        ];
        let s2 = (prop::collection::vec(opt, 1..5), gen::flags_strategy("ims"), gen::raw_inputs(5, 6))
            .prop_map(|(v, flags, inputs)| AstCase { node: Node::Cat(v), flags, inputs: Inputs::Raw(inputs) })
            .boxed();
        // literal patterns (flag q): only the empty literal matches the empty string; alphanumeric literals render
        // identically as a regex and as a literal, so R1 on the AST is the oracle for both readings
        let s3 = (prop::collection::vec(prop::sample::select(vec!['a', 'b', 'A']), 0..3), prop::sample::select(vec!["q", "qi", "qs", "qm", "qx", "iq"]), gen::raw_inputs(4, 5))
            .prop_map(|(v, flags, inputs)| AstCase { node: if v.is_empty() { Node::Empty } else { Node::Cat(v.into_iter().map(Node::Lit).collect()) }, flags: flags.to_string(), inputs: Inputs::Raw(inputs) })
            .boxed();
        vec![
            Part { name: "literal-flag-q".into(), strategy: s3, cases: tier.pick(20_000, 200_000) },
            Part { name: "random".into(), strategy: s, cases: tier.pick(150_000, 3_000_000) },
            Part { name: "nullable-shapes".into(), strategy: s2, cases: tier.pick(150_000, 3_000_000) },
            Part { name: "scaled".into(), strategy: super::c01::scaled_part(&cfg, "ims"), cases: tier.pick(20_000, 300_000) },
        ]
    }
    fn enumerations(&self, tier: Tier) -> Vec<(String, String, Box<dyn Iterator<Item = AstCase> + Send>)> {
        // nullability is decided at compile time from the shape of the pattern and the flags: both finite scopes of C01
        let size = tier.pick(4, 5);
        let nodes = crate::enumerate::up_to(&super::c01::enum_cfg(), size);
        let inputs = crate::enumerate::inputs(&['a', 'b', '\n'], 2);
        let flagsets: Vec<String> = vec!["", "m", "s", "ms", "i"].into_iter().map(String::from).collect();
        let scope = format!("all {} ASTs of size <= {} over the atoms and quantifiers of C01's first scope x flags {{'', m, s, ms, i}} x all {} inputs over {{a,b,LF}} of length <= 2", nodes.len(), size, inputs.len());
        let it = nodes.into_iter().flat_map(move |node| {
            let inputs = inputs.clone();
            flagsets.clone().into_iter().map(move |f| AstCase { node: node.clone(), flags: f, inputs: Inputs::Lit(inputs.clone()) })
        });
        let (name, scope2, it2) = super::c01::macro_enumeration(tier);
        let it2 = it2.map(|mut c| {
            if let Inputs::Lit(v) = &mut c.inputs {
                v.retain(|s| s.chars().count() <= 3);
            }
            c
        });
        vec![("exhaustive-small".into(), scope, Box::new(it)), (name, format!("{scope2} (inputs of length <= 3 only)"), Box::new(it2))]
    }
    fn extra(&self, ctx: &mut Ctx) -> Vec<(String, Verdict, Option<AstCase>)> {
        // the target `lang` also compares the engine's nullability verdict with R1
        super::c01::lang_campaign("C16", "lang", ctx, &|case, ctx| check_nullable(case, ctx))
    }
    fn check(&self, case: &AstCase, ctx: &mut Ctx) -> Verdict {
        check_nullable(case, ctx)
    }
    fn describe(&self, case: &AstCase) -> Value {
        case.describe(Dialect::XPath, &[])
    }
    fn rule(&self) -> String {
        "evaluation = one call of replace_all / tokenize / analyze whose acceptance (Err(MatchesEmptyString) or not) is compared with R1's answer to 'does the pattern match the zero-length string', plus the zero-length-match and iterator-size clauses when accepted; non-trivial = the pattern contains a quantifier, anchor, empty branch or back-reference; distinct = distinct (pattern, flags, input)".into()
    }
    fn guards(&self) -> Vec<Guard> {
        vec![
            Guard { label: "oracle=nullable".into(), of: "".into(), min_fraction: 0.25 },
            Guard { label: "oracle=non-nullable".into(), of: "".into(), min_fraction: 0.25 },
        ]
    }
}
