//! C20 — equivalent spellings of a pattern behave identically (metamorphic).
use super::common::*;
use crate::ast::*;
use crate::driver::*;
use crate::gen::{self, GenCfg};
use crate::proto::*;
use proptest::prelude::*;
use serde::{Deserialize, Serialize};
use serde_json::{json, Value};

pub struct C20;

#[derive(Clone, Debug, PartialEq, Eq, Hash, Serialize, Deserialize)]
pub struct Case20 {
    pub ast: AstCase,
    pub law: u8,
    pub pos: u16,
}

pub const LAWS: &[&str] = &[
    "wrap-noncapturing",
    "r{1}=r",
    "r{n,m}=r^n(r?)^(m-n)",
    "r{n,}=r^n r*",
    "r+=rr*",
    "r{0}=empty",
    "[xy]=(x|y)",
    "x=[x]",
    "r|r=r",
    "(r|s)t=rt|st",
    "capturing=noncapturing",
    "r=r|r",
];

fn copyable(n: &Node) -> bool {
    n.n_groups() == 0 && !n.has_backref()
}

/// apply `law` to the node itself (not to children); None if not applicable here
fn apply_here(law: usize, n: &Node, root_refs: &[u32]) -> Option<Node> {
    match law {
        0 => match n {
            Node::Empty | Node::Alt(_) => None,
            _ => Some(Node::ncap(n.clone())),
        },
        1 => match n {
            Node::Empty | Node::Alt(_) | Node::Cat(_) => None,
            _ => Some(Node::Rep { body: Box::new(n.clone()), min: 1, max: Some(1), greedy: true, brace: true }),
        },
        2 => match n {
            Node::Rep { body, min, max: Some(m), greedy: true, .. } if *m <= 4 && m > min && copyable(body) => {
                let mut v = vec![];
                for _ in 0..*min {
                    v.push((**body).clone());
                }
                for _ in 0..(m - min) {
                    v.push(Node::rep(Node::ncap((**body).clone()), 0, Some(1), true));
                }
                Some(Node::ncap(Node::Cat(v)))
            }
            _ => None,
        },
        3 => match n {
            Node::Rep { body, min, max: None, greedy: true, .. } if *min <= 3 && *min >= 1 && copyable(body) => {
                let mut v = vec![];
                for _ in 0..*min {
                    v.push((**body).clone());
                }
                v.push(Node::rep((**body).clone(), 0, None, true));
                Some(Node::ncap(Node::Cat(v)))
            }
            _ => None,
        },
        4 => match n {
            Node::Rep { body, min: 1, max: None, greedy, .. } if copyable(body) => {
                Some(Node::ncap(Node::Cat(vec![(**body).clone(), Node::rep((**body).clone(), 0, None, *greedy)])))
            }
            _ => None,
        },
        5 => match n {
            Node::Rep { body, max: Some(0), .. } if copyable(body) => Some(Node::ncap(Node::Empty)),
            _ => None,
        },
        6 => match n {
            Node::Class(ClassExpr { neg: false, items, sub: None }) if items.len() >= 2 && items.iter().all(|i| matches!(i, Item::Char(_))) => {
                Some(Node::ncap(Node::Alt(items.iter().map(|i| if let Item::Char(c) = i { Node::Lit(*c) } else { unreachable!() }).collect())))
            }
            Node::Group(0, b) => match &**b {
                Node::Alt(v) if v.len() >= 2 && v.iter().all(|x| matches!(x, Node::Lit(_))) => Some(Node::Class(ClassExpr {
                    neg: false,
                    items: v.iter().map(|x| if let Node::Lit(c) = x { Item::Char(*c) } else { unreachable!() }).collect(),
                    sub: None,
                })),
                _ => None,
            },
            _ => None,
        },
        7 => match n {
            Node::Lit(c) => Some(Node::Class(ClassExpr { neg: false, items: vec![Item::Char(*c)], sub: None })),
            Node::Class(ClassExpr { neg: false, items, sub: None }) if items.len() == 1 => match &items[0] {
                Item::Char(c) => Some(Node::Lit(*c)),
                _ => None,
            },
            _ => None,
        },
        8 => match n {
            Node::Group(0, b) => match &**b {
                Node::Alt(v) if v.len() == 2 && v[0] == v[1] && copyable(&v[0]) => Some(Node::ncap(v[0].clone())),
                _ => None,
            },
            _ => None,
        },
        9 => match n {
            Node::Cat(v) if v.len() >= 2 => {
                for i in 0..v.len() - 1 {
                    if let Node::Group(0, b) = &v[i] {
                        if let Node::Alt(branches) = &**b {
                            let t: Vec<Node> = v[i + 1..].to_vec();
                            if t.iter().all(copyable) {
                                let new_alt = Node::ncap(Node::Alt(
                                    branches
                                        .iter()
                                        .map(|br| {
                                            let mut c = vec![br.clone()];
                                            c.extend(t.iter().cloned());
                                            Node::Cat(c)
                                        })
                                        .collect(),
                                ));
                                let mut out: Vec<Node> = v[..i].to_vec();
                                out.push(new_alt);
                                return Some(Node::Cat(out));
                            }
                        }
                    }
                }
                None
            }
            _ => None,
        },
        10 => match n {
            Node::Group(k, b) if *k != 0 && !root_refs.contains(k) => Some(Node::Group(0, b.clone())),
            _ => None,
        },
        11 => match n {
            Node::Empty | Node::Alt(_) => None,
            _ if copyable(n) => Some(Node::ncap(Node::Alt(vec![n.clone(), n.clone()]))),
            _ => None,
        },
        _ => None,
    }
}

fn count_sites(law: usize, n: &Node, refs: &[u32]) -> usize {
    (if apply_here(law, n, refs).is_some() { 1 } else { 0 }) + n.children().iter().map(|c| count_sites(law, c, refs)).sum::<usize>()
}

/// rewrite the `target`-th applicable site (pre-order); returns (new node, removed group number if law 10)
fn rewrite(law: usize, n: &Node, refs: &[u32], target: &mut isize, removed: &mut Option<u32>) -> Node {
    if *target >= 0 {
        if let Some(new) = apply_here(law, n, refs) {
            if *target == 0 {
                *target = -1;
                if law == 10 {
                    if let Node::Group(k, _) = n {
                        *removed = Some(*k);
                    }
                }
                return new;
            }
            *target -= 1;
        }
    }
    match n {
        Node::Group(k, b) => Node::Group(*k, Box::new(rewrite(law, b, refs, target, removed))),
        Node::Alt(v) => Node::Alt(v.iter().map(|c| rewrite(law, c, refs, target, removed)).collect()),
        Node::Cat(v) => Node::Cat(v.iter().map(|c| rewrite(law, c, refs, target, removed)).collect()),
        Node::Rep { body, min, max, greedy, brace } => Node::Rep { body: Box::new(rewrite(law, body, refs, target, removed)), min: *min, max: *max, greedy: *greedy, brace: *brace },
        other => other.clone(),
    }
}

fn renumber_after_removal(n: &Node, k: u32) -> Node {
    match n {
        Node::Group(j, b) => Node::Group(if *j > k { *j - 1 } else { *j }, Box::new(renumber_after_removal(b, k))),
        Node::BackRef(j) => Node::BackRef(if *j > k { *j - 1 } else { *j }),
        Node::Alt(v) => Node::Alt(v.iter().map(|c| renumber_after_removal(c, k)).collect()),
        Node::Cat(v) => Node::Cat(v.iter().map(|c| renumber_after_removal(c, k)).collect()),
        Node::Rep { body, min, max, greedy, brace } => Node::Rep { body: Box::new(renumber_after_removal(body, k)), min: *min, max: *max, greedy: *greedy, brace: *brace },
        other => other.clone(),
    }
}

/// the spans of the matches reported by analyze (or the error / skip reason)
fn spans_of(io: &InputOutcome) -> Result<Vec<(usize, usize)>, String> {
    match io.analyze.as_ref().unwrap() {
        Res::Ok(it) => {
            if it.panic.is_some() || it.capped {
                return Err("panic".into());
            }
            Ok(analyze_spans(&it.items))
        }
        Res::Err(k) => Err(format!("{k:?}")),
        Res::Panic(_) => Err("panic".into()),
    }
}

pub fn check_law(case: &Case20, ctx: &mut Ctx) -> Verdict {
    let m = case.ast.materialize(Dialect::XPath, &[]);
    let refs = m.node.backrefs();
    // find an applicable law starting from the requested one
    let mut law = case.law as usize % LAWS.len();
    let mut sites = 0;
    for _ in 0..LAWS.len() {
        sites = count_sites(law, &m.node, &refs);
        if sites > 0 {
            break;
        }
        law = (law + 1) % LAWS.len();
    }
    if sites == 0 {
        return Verdict::Skip("no-law-applicable");
    }
    let mut target = (((case.pos as usize) * sites) >> 16) as isize;
    let mut removed = None;
    let mut node2 = rewrite(law, &m.node, &refs, &mut target, &mut removed);
    if let Some(k) = removed {
        node2 = renumber_after_removal(&node2, k);
    }
    let p1 = m.pattern.clone();
    let p2 = render(&node2, Dialect::XPath);
    ctx.obs.label(&format!("law:{}", LAWS[law]));
    let mut j1 = Job::new(Dialect::XPath, &p1, &case.ast.flags);
    j1.inputs = m.inputs.clone();
    j1.replacements = vec![];
    j1.apis = API_IS_MATCH | API_ANALYZE;
    let mut j2 = j1.clone();
    j2.pattern = p2.clone();
    let (r1, r2) = (ctx.w.run(&j1), ctx.w.run(&j2));
    let (a, b) = match (&r1, &r2) {
        (JobResult::Done(a), JobResult::Done(b)) => (a, b),
        (JobResult::Hang, _) | (_, JobResult::Hang) => return Verdict::Skip("hang"),
        _ => return Verdict::Skip("died"),
    };
    let detail = format!("law={} left={:?} right={:?} flags={:?}", LAWS[law], p1, p2, case.ast.flags);
    let (fa, fb) = match (&a.compile, &b.compile) {
        (Res::Ok(fa), Res::Ok(fb)) => (fa, fb),
        (Res::Panic(_), _) | (_, Res::Panic(_)) => return Verdict::Skip("panic"),
        (x, y) => {
            if x.ok().is_none() && y.ok().is_none() {
                return Verdict::Skip("compile_err");
            }
            return Verdict::Fail(Failure { sub: "acceptance".into(), expected: "both spellings accepted".into(), actual: format!("left {:?}, right {:?}", x.err(), y.err()), detail });
        }
    };
    let different_trees = fa.operators != fb.operators;
    if different_trees {
        ctx.obs.label("different-operator-trees");
    }
    let in_fixed_loop_region = m.node.backref_to_group_in_fixed_loop() || node2.backref_to_group_in_fixed_loop();
    let mut known_hit = None;
    let strict_spans = !m.node.has_quantified_possibly_empty() && !node2.has_quantified_possibly_empty();
    ctx.obs.label(if strict_spans { "compared:is_match+spans" } else { "compared:is_match-only" });
    for (i, input) in m.inputs.iter().enumerate() {
        let (x, y) = (&a.per_input[i], &b.per_input[i]);
        let (mx, my) = match (x.is_match.as_ref().unwrap(), y.is_match.as_ref().unwrap()) {
            (Res::Ok(p), Res::Ok(q)) => (*p, *q),
            _ => return Verdict::Skip("panic"),
        };
        ctx.obs.eval(2);
        let cut = x.any_cutoff() || y.any_cutoff() || a.compile_cutoffs > 0 || b.compile_cutoffs > 0;
        let mut regions = vec![];
        if cut {
            regions.push("force_progress_cutoff");
        }
        if in_fixed_loop_region {
            regions.push("backref_to_group_in_fixed_length_loop");
        }
        if mx != my {
            if let Some(id) = ctx.known.attribute("C20", &regions, "results-differ") {
                known_hit = Some(id);
                continue;
            }
            return Verdict::Fail(Failure { sub: "is_match".into(), expected: format!("same answer from both spellings on {input:?}"), actual: format!("left {mx}, right {my}"), detail });
        }
        // span lists are compared where ordered choice is well defined on both sides (no quantifier over a body that
        // can match the empty string: mainstream engines disagree there, cf. C02's strict clause); is_match always is
        if !strict_spans {
            if mx {
                ctx.obs.label("input-matches");
            }
            continue;
        }
        let (sx, sy) = (spans_of(x), spans_of(y));
        if sx.as_ref().err().map(|e| e.as_str()) == Some("panic") || sy.as_ref().err().map(|e| e.as_str()) == Some("panic") {
            continue;
        }
        if sx != sy {
            if let Some(id) = ctx.known.attribute("C20", &regions, "results-differ") {
                known_hit = Some(id);
                continue;
            }
            // captures inside loops may differ in which stale text is kept; spans must not
            return Verdict::Fail(Failure { sub: "spans".into(), expected: format!("same span list from both spellings on {input:?}"), actual: format!("left {sx:?}, right {sy:?}"), detail });
        }
        if mx && different_trees {
            ctx.obs.nontrivial(&(&p1, &p2, &case.ast.flags, input));
        }
        if mx {
            ctx.obs.label("input-matches");
        }
    }
    ctx.obs.sample(|| json!({"law": LAWS[law], "left": p1, "right": p2, "flags": case.ast.flags, "inputs": m.inputs}));
    match known_hit {
        Some(id) => Verdict::Known(id),
        None => Verdict::Pass,
    }
}

impl Prop for C20 {
    type Case = Case20;
    fn id(&self) -> &'static str {
        "C20"
    }
    fn enumerations(&self, tier: Tier) -> Vec<(String, String, Box<dyn Iterator<Item = Case20> + Send>)> {
        // every law at (up to) three sites of every small pattern: C01's small scope and the macro-atom scope
        let size = tier.pick(3, 4);
        let nodes = crate::enumerate::up_to(&super::c01::enum_cfg(), size);
        let inputs = crate::enumerate::inputs(&['a', 'b', '\n'], 3);
        let scope = format!("all {} ASTs of size <= {} of C01's first scope x all 12 laws x 3 rewrite sites x flags {{'', m}} x all {} inputs over {{a,b,LF}} of length <= 3", nodes.len(), size, inputs.len());
        let it = nodes.into_iter().flat_map(move |node| {
            let inputs = inputs.clone();
            (0..LAWS.len() as u8).flat_map(move |law| {
                let (node, inputs) = (node.clone(), inputs.clone());
                [0u16, 30000, 60000].into_iter().flat_map(move |pos| {
                    let (node, inputs) = (node.clone(), inputs.clone());
                    ["", "m"].into_iter().map(move |f| Case20 { ast: AstCase { node: node.clone(), flags: f.to_string(), inputs: Inputs::Lit(inputs.clone()) }, law, pos })
                })
            })
        });
        let msize = tier.pick(3, 4);
        let mnodes = crate::enumerate::up_to(&super::c01::macro_cfg(), msize);
        let minputs = crate::enumerate::inputs(&['a', 'b'], 4);
        let scope2 = format!("all {} ASTs of size <= {} of the macro-atom scope x all 12 laws x 3 rewrite sites x all {} inputs over {{a,b}} of length <= 4", mnodes.len(), msize, minputs.len());
        let it2 = mnodes.into_iter().flat_map(move |node| {
            let inputs = minputs.clone();
            (0..LAWS.len() as u8).flat_map(move |law| {
                let (node, inputs) = (node.clone(), inputs.clone());
                [0u16, 30000, 60000].into_iter().map(move |pos| Case20 { ast: AstCase { node: node.clone(), flags: String::new(), inputs: Inputs::Lit(inputs.clone()) }, law, pos })
            })
        });
        vec![("exhaustive-small".into(), scope, Box::new(it)), ("exhaustive-nested-quantifiers".into(), scope2, Box::new(it2))]
    }
    fn parts(&self, tier: Tier) -> Vec<Part<Case20>> {
        let mut cfg = GenCfg::basic(&['a', 'b', 'c']);
        cfg.w_esc = 0;
        cfg.class.escapes = false;
        cfg.class.neg = false;
        cfg.class.sub_depth = 0;
        cfg.class.range_pool = vec![('a', 'b')];
        cfg.w_class = 4;
        cfg.counted_max = 3;
        let s = (gen::node_strategy(&cfg), gen::flags_strategy("ims"), gen::raw_inputs(12, 8), 0u8..12, any::<u16>())
            .prop_map(|(node, flags, inputs, law, pos)| Case20 { ast: AstCase { node, flags, inputs: Inputs::Raw(inputs) }, law, pos })
            .boxed();
        // shapes for the two laws that random patterns rarely contain: (?:r|r) and (?:r|s)t
        let mut small = cfg.clone();
        small.size = 6;
        small.depth = 2;
        small.w_backref = 0;
        small.cap = false;
        let r = gen::inner_node_strategy(&small);
        let planted = (gen::inner_node_strategy(&cfg), r.clone(), r.clone(), r, gen::inner_node_strategy(&cfg), any::<bool>())
            .prop_map(|(pre, a, b, t, post, same)| {
                if same {
                    (Node::Cat(vec![pre, Node::ncap(Node::Alt(vec![a.clone(), a])), post]), 8u8)
                } else {
                    (Node::Cat(vec![pre, Node::Cat(vec![Node::ncap(Node::Alt(vec![a, b])), t])]), 9u8)
                }
            });
        let s2 = (planted, gen::flags_strategy("ims"), gen::raw_inputs(12, 8), any::<u16>())
            .prop_map(|((node, law), flags, inputs, pos)| Case20 { ast: AstCase { node, flags, inputs: Inputs::Raw(inputs) }, law, pos })
            .boxed();
        vec![
            Part { name: "laws".into(), strategy: s, cases: tier.pick(300_000, 5_000_000) },
            Part { name: "planted-alternations".into(), strategy: s2, cases: tier.pick(60_000, 1_000_000) },
        ]
    }
    fn check(&self, case: &Case20, ctx: &mut Ctx) -> Verdict {
        check_law(case, ctx)
    }
    fn describe(&self, case: &Case20) -> Value {
        let m = case.ast.materialize(Dialect::XPath, &[]);
        json!({"pattern": m.pattern, "flags": case.ast.flags, "inputs": m.inputs, "law(requested)": LAWS[case.law as usize % LAWS.len()], "pos": case.pos})
    }
    fn rule(&self) -> String {
        "evaluation = is_match and the analyze span list of one input under both spellings of a pattern, the second obtained by applying one law of regular-expression algebra at one position (laws that copy a term only where it has no group or back-reference); non-trivial = the two spellings compile to different operator trees and the input matches; distinct = distinct (left, right, flags, input)".into()
    }
    fn guards(&self) -> Vec<Guard> {
        let mut g: Vec<Guard> = LAWS.iter().map(|l| Guard { label: format!("law:{l}"), of: "".into(), min_fraction: 0.005 }).collect();
        g.push(Guard { label: "different-operator-trees".into(), of: "".into(), min_fraction: 0.3 });
        g.push(Guard { label: "compared:is_match+spans".into(), of: "".into(), min_fraction: 0.4 });
        g
    }
}
