//! Shared case type for AST-based properties and helpers.
use crate::ast::*;
use crate::gen;
use crate::oracle_lang::Flags;
use crate::proto::*;
use serde::{Deserialize, Serialize};
use serde_json::{json, Value};

#[derive(Clone, Debug, PartialEq, Eq, Hash, Serialize, Deserialize)]
pub enum Inputs {
    /// index vectors mapped onto the pattern's alphabet
    Raw(Vec<Vec<u16>>),
    /// literal strings
    Lit(Vec<String>),
}

#[derive(Clone, Debug, PartialEq, Eq, Hash, Serialize, Deserialize)]
pub struct AstCase {
    /// raw AST (groups unnumbered, back-references as selectors)
    pub node: Node,
    pub flags: String,
    pub inputs: Inputs,
}

pub struct Mat {
    pub node: Node,
    pub pattern: String,
    pub flags: Flags,
    pub inputs: Vec<String>,
}

impl AstCase {
    pub fn materialize(&self, dialect: Dialect, extra_alpha: &[char]) -> Mat {
        let node = resolve(&self.node);
        let flags = Flags::from_str(&self.flags);
        let pattern = render(&node, dialect);
        let inputs = match &self.inputs {
            Inputs::Lit(v) => v.clone(),
            Inputs::Raw(r) => {
                let alpha = gen::input_alphabet(&node, flags, extra_alpha);
                // every second input is sampled from the pattern's own language (likely to match, often more than
                // once); the others are random strings over the pattern's alphabet
                let mut v: Vec<String> = r
                    .iter()
                    .enumerate()
                    .map(|(i, x)| {
                        if i % 2 == 1 && !x.is_empty() {
                            let s: String = gen::sample_input(&node, flags, x, &alpha).chars().take(x.len().max(4) + 4).collect();
                            s
                        } else {
                            gen::materialize_input(x, &alpha)
                        }
                    })
                    .collect();
                v.dedup();
                v
            }
        };
        Mat { node, pattern, flags, inputs }
    }
    pub fn describe(&self, dialect: Dialect, extra_alpha: &[char]) -> Value {
        let m = self.materialize(dialect, extra_alpha);
        json!({"pattern": m.pattern, "flags": self.flags, "inputs": m.inputs})
    }
}

pub fn facts_labels(f: &Facts) -> Vec<&'static str> {
    let mut v = vec![];
    if f.prefix.is_some() {
        v.push("shortcut:prefix");
    }
    if f.initial_char_class {
        v.push("shortcut:initial_class");
    }
    if f.preconditions > 0 {
        v.push("shortcut:preconditions");
    }
    if f.has_bol {
        v.push("shortcut:hasbol");
    }
    if f.minimum_length > 0 {
        v.push("shortcut:min_length");
    }
    if f.unambiguous_repeats > 0 {
        v.push("shortcut:unambiguous_repeat");
    }
    v
}

pub fn chars(s: &str) -> Vec<char> {
    s.chars().collect()
}

/// A fully concrete case: strings only.
#[derive(Clone, Debug, PartialEq, Eq, Hash, Serialize, Deserialize)]
pub struct StrCase {
    pub dialect: Dialect,
    pub pattern: String,
    pub flags: String,
    pub inputs: Vec<String>,
    pub replacements: Vec<String>,
    /// free-form tag naming the generator part (informational)
    #[serde(default)]
    pub tag: String,
}

impl StrCase {
    pub fn job(&self) -> Job {
        let mut j = Job::new(self.dialect, &self.pattern, &self.flags);
        j.inputs = self.inputs.clone();
        j.replacements = self.replacements.clone();
        j
    }
    pub fn describe(&self) -> Value {
        json!({"dialect": format!("{:?}", self.dialect), "pattern": self.pattern, "flags": self.flags, "inputs": self.inputs, "replacements": self.replacements, "tag": self.tag})
    }
}

/// spans (in chars) of the matches reported by analyze, plus total length covered
pub fn analyze_spans(entries: &[AEntry]) -> Vec<(usize, usize)> {
    fn mlen(v: &[MEntry]) -> usize {
        v.iter()
            .map(|e| match e {
                MEntry::S(s) => s.chars().count(),
                MEntry::G(_, v) => mlen(v),
            })
            .sum()
    }
    let mut pos = 0;
    let mut out = vec![];
    for e in entries {
        match e {
            AEntry::NonMatch(s) => pos += s.chars().count(),
            AEntry::Match(v) => {
                let l = mlen(v);
                out.push((pos, pos + l));
                pos += l;
            }
        }
    }
    out
}

pub fn mentry_text(v: &[MEntry]) -> String {
    let mut s = String::new();
    fn go(v: &[MEntry], s: &mut String) {
        for e in v {
            match e {
                MEntry::S(t) => s.push_str(t),
                MEntry::G(_, v) => go(v, s),
            }
        }
    }
    go(v, &mut s);
    s
}

pub fn analyze_text(entries: &[AEntry]) -> String {
    let mut s = String::new();
    for e in entries {
        match e {
            AEntry::NonMatch(t) => s.push_str(t),
            AEntry::Match(v) => s.push_str(&mentry_text(v)),
        }
    }
    s
}

/// spans from replace_all(s, "\u{1}$0\u{2}") — the markers must not occur in the input
pub fn marker_spans(replaced: &str) -> Option<Vec<(usize, usize)>> {
    let mut out = vec![];
    let mut pos = 0usize;
    let mut open: Option<usize> = None;
    for c in replaced.chars() {
        match c {
            '\u{1}' => {
                if open.is_some() {
                    return None;
                }
                open = Some(pos);
            }
            '\u{2}' => {
                let s = open.take()?;
                out.push((s, pos));
            }
            _ => pos += 1,
        }
    }
    if open.is_some() {
        return None;
    }
    Some(out)
}

/// limit the nesting depth of unbounded/large repeats (deeper ones are replaced by their body)
pub fn limit_rep_nesting(n: &Node, depth_left: u32) -> Node {
    match n {
        Node::Rep { body, min, max, greedy, brace } => {
            if depth_left == 0 {
                limit_rep_nesting(body, 0)
            } else {
                Node::Rep { body: Box::new(limit_rep_nesting(body, depth_left - 1)), min: *min, max: *max, greedy: *greedy, brace: *brace }
            }
        }
        Node::Group(k, b) => Node::Group(*k, Box::new(limit_rep_nesting(b, depth_left))),
        Node::Alt(v) => Node::Alt(v.iter().map(|c| limit_rep_nesting(c, depth_left)).collect()),
        Node::Cat(v) => Node::Cat(v.iter().map(|c| limit_rep_nesting(c, depth_left)).collect()),
        other => other.clone(),
    }
}

pub fn rep_nesting(n: &Node) -> u32 {
    match n {
        Node::Rep { body, .. } => 1 + rep_nesting(body),
        _ => n.children().iter().map(|c| rep_nesting(c)).max().unwrap_or(0),
    }
}
