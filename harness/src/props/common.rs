//! Shared case type for AST-based properties and helpers.
use crate::ast::*;
use crate::gen;
use crate::oracle_lang::Flags;
use crate::proto::*;
use serde::{Deserialize, Serialize};
use serde_json::{json, Value};

#[derive(Clone, Debug, PartialEq, Eq, Hash, Serialize, Deserialize)]
pub enum Inputs {
    /// index vectors mapped onto the pattern's alphabet
    Raw(Vec<Vec<u16>>),
    /// literal strings
    Lit(Vec<String>),
}

#[derive(Clone, Debug, PartialEq, Eq, Hash, Serialize, Deserialize)]
pub struct AstCase {
    /// raw AST (groups unnumbered, back-references as selectors)
    pub node: Node,
    pub flags: String,
    pub inputs: Inputs,
}

pub struct Mat {
    pub node: Node,
    pub pattern: String,
    pub flags: Flags,
    pub inputs: Vec<String>,
}

impl AstCase {
    pub fn materialize(&self, dialect: Dialect, extra_alpha: &[char]) -> Mat {
        let node = resolve(&self.node);
        let flags = Flags::from_str(&self.flags);
        let pattern = render(&node, dialect);
        let inputs = match &self.inputs {
            Inputs::Lit(v) => v.clone(),
            Inputs::Raw(r) => {
                let alpha = gen::input_alphabet(&node, flags, extra_alpha);
                let mut v: Vec<String> = r.iter().map(|x| gen::materialize_input(x, &alpha)).collect();
                v.dedup();
                v
            }
        };
        Mat { node, pattern, flags, inputs }
    }
    pub fn describe(&self, dialect: Dialect, extra_alpha: &[char]) -> Value {
        let m = self.materialize(dialect, extra_alpha);
        json!({"pattern": m.pattern, "flags": self.flags, "inputs": m.inputs})
    }
}

pub fn facts_labels(f: &Facts) -> Vec<&'static str> {
    let mut v = vec![];
    if f.prefix.is_some() {
        v.push("shortcut:prefix");
    }
    if f.initial_char_class {
        v.push("shortcut:initial_class");
    }
    if f.preconditions > 0 {
        v.push("shortcut:preconditions");
    }
    if f.has_bol {
        v.push("shortcut:hasbol");
    }
    if f.minimum_length > 0 {
        v.push("shortcut:min_length");
    }
    if f.unambiguous_repeats > 0 {
        v.push("shortcut:unambiguous_repeat");
    }
    v
}

pub fn chars(s: &str) -> Vec<char> {
    s.chars().collect()
}
