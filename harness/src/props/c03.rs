//! C03 — captured groups report the text captured on the selected match path.
use super::c02::{strict_applicable, EXTRA};
use super::common::*;
use super::spans::*;
use crate::ast::*;
use crate::driver::*;
use crate::gen::{self, GenCfg};
use crate::oracle_bt::{Bt, Match};
use crate::oracle_lang::{self, Tri};
use crate::proto::*;
use proptest::prelude::*;
use serde_json::Value;

pub struct C03;

/// parent group (0 = none) of every capturing group, from the pattern's parenthesis tree
pub fn group_parents(node: &Node) -> Vec<u32> {
    let n = node.n_groups() as usize;
    let mut parents = vec![0u32; n + 1];
    fn walk(n: &Node, cur: u32, parents: &mut Vec<u32>) {
        match n {
            Node::Group(k, b) if *k != 0 => {
                parents[*k as usize] = cur;
                walk(b, *k, parents);
            }
            _ => {
                for c in n.children() {
                    walk(c, cur, parents);
                }
            }
        }
    }
    walk(node, 0, &mut parents);
    parents
}

/// flatten an analyze match tree into (group nr, text, parent chain)
fn tree_groups(v: &[MEntry], chain: &mut Vec<usize>, out: &mut Vec<(usize, String, Vec<usize>)>) {
    for e in v {
        if let MEntry::G(nr, inner) = e {
            out.push((*nr, mentry_text(inner), chain.clone()));
            chain.push(*nr);
            tree_groups(inner, chain, out);
            chain.pop();
        }
    }
}

/// does capturing group g have a quantifier (other than {1}) among its ancestors?
pub fn group_under_quantifier(node: &Node, g: u32) -> bool {
    fn walk(n: &Node, g: u32, under: bool) -> bool {
        match n {
            Node::Group(k, b) => (*k == g && under) || walk(b, g, under),
            Node::Rep { body, min, max, .. } => walk(body, g, under || !(*min == 1 && *max == Some(1))),
            _ => n.children().iter().any(|c| walk(c, g, under)),
        }
    }
    walk(node, g, false)
}

/// capturing group inside a quantifier with max > 1 whose body is not of fixed length
pub fn group_in_variable_loop(node: &Node) -> bool {
    node.any(&|n| match n {
        Node::Rep { body, max, .. } => max.map_or(true, |m| m > 1) && body.n_groups() > 0 && body.fixed_len().is_none(),
        _ => false,
    })
}

pub fn check_captures(prop: &str, case: &AstCase, ctx: &mut Ctx) -> Verdict {
    let m = case.materialize(Dialect::XPath, EXTRA);
    let ng = m.node.n_groups() as usize;
    if ng == 0 {
        ctx.obs.label("skipped:no-groups");
        return Verdict::Pass;
    }
    match oracle_lang::matches_empty(&m.node, m.flags) {
        Tri::False => {}
        Tri::True => {
            ctx.obs.label("skipped:nullable(oracle)");
            return Verdict::Pass;
        }
        _ => return Verdict::Skip("oracle-undecided"),
    }
    let obs = match observe(Dialect::XPath, &m.pattern, &case.flags, &m.inputs, ng, None, ctx) {
        Observed::Ok(v, _) => v,
        Observed::Nullable => return Verdict::Pass,
        Observed::CompileErr(_) => return Verdict::Skip("compile_err"),
        Observed::Skip(r) => return Verdict::Skip(r),
        Observed::Inconsistent(_) => return Verdict::Skip("api-inconsistent(see C04)"),
    };
    let strict = strict_applicable(&m.node);
    let parents = group_parents(&m.node);
    let mut known_hit = None;
    for o in &obs {
        let s = chars(&o.input);
        if o.a_spans != o.r_spans || o.r_groups.len() != o.a_spans.len() {
            continue;
        }
        let matches: Vec<&Vec<MEntry>> = o.entries.iter().filter_map(|e| if let AEntry::Match(v) = e { Some(v) } else { None }).collect();
        // --- structural clauses on every match ---
        for (k, tree) in matches.iter().enumerate() {
            ctx.obs.eval(1);
            let (a, b) = o.a_spans[k];
            let text: String = s[a..b].iter().collect();
            let fail = |sub: &str, expected: String, actual: String| {
                Verdict::Fail(Failure { sub: sub.into(), expected, actual, detail: format!("pattern={:?} flags={:?} input={:?} match #{k} tree={:?}", m.pattern, case.flags, o.input, tree) })
            };
            if mentry_text(tree) != text {
                return fail("tree-concat", format!("{text:?}"), format!("{:?}", mentry_text(tree)));
            }
            let mut gs = vec![];
            tree_groups(tree, &mut vec![], &mut gs);
            let mut seen = vec![false; ng + 1];
            for (nr, _, _) in &gs {
                if *nr == 0 || *nr > ng {
                    return fail("group-nr-range", format!("1..={ng}"), format!("{nr}"));
                }
                if seen[*nr] {
                    return fail("group-twice", "each group at most once per match".into(), format!("group {nr} twice"));
                }
                seen[*nr] = true;
            }
            // $N text must equal the Group{nr:N} text when that group is present and non-empty
            for (nr, gtext, _) in &gs {
                if !gtext.is_empty() && o.r_groups[k][*nr - 1] != *gtext {
                    return fail("replace-vs-analyze-group", format!("${nr}={gtext:?} (from analyze)"), format!("${nr}={:?} (from replace_all)", o.r_groups[k][*nr - 1]));
                }
            }
            for g in 1..=ng {
                if !o.r_groups[k][g - 1].is_empty() && !seen[g] {
                    return fail("replace-vs-analyze-group", format!("Group nr={g} present in analyze with text {:?}", o.r_groups[k][g - 1]), "absent".into());
                }
            }
        }
        // --- oracle clause: only on inputs where the span list agrees with R2 (strict clause of C02) ---
        if !strict {
            continue;
        }
        let bt = Bt::new(&m.node, &s, m.flags);
        let ms: Vec<Match> = match bt.find_all(&m.node) {
            Some(v) => v,
            None => continue,
        };
        let rs: Vec<(usize, usize)> = ms.iter().map(|x| (x.start, x.end)).collect();
        if rs != o.a_spans {
            continue; // C02's business
        }
        let backtracked = bt.group_backtracks.get() > 0;
        for (k, rm) in ms.iter().enumerate() {
            ctx.obs.eval(1);
            let tree = matches[k];
            let mut gs = vec![];
            tree_groups(tree, &mut vec![], &mut gs);
            let mut mismatch: Option<(String, String, String)> = None;
            let mut mismatch_group: Option<usize> = None;
            // the engine shows nothing (empty or absent) where the reference has a non-empty capture
            let mut lost = false;
            let mut participated = 0;
            for g in 1..=ng {
                let want: Option<String> = rm.caps[g].map(|(a, b)| s[a..b].iter().collect());
                if want.is_some() {
                    participated += 1;
                }
                let got_r = &o.r_groups[k][g - 1];
                let got_a = gs.iter().find(|(nr, _, _)| *nr == g).map(|x| x.1.clone());
                let want_text = want.clone().unwrap_or_default();
                if *got_r != want_text {
                    lost = got_r.is_empty();
                    mismatch_group = Some(g);
                    mismatch = Some(("group-text(replace)".into(), format!("${g}={want_text:?}"), format!("${g}={got_r:?}")));
                    break;
                }
                match (&want, &got_a) {
                    (None, Some(t)) => {
                        mismatch_group = Some(g);
                        mismatch = Some(("group-absent(analyze)".into(), format!("no Group nr={g} (it did not participate)"), format!("Group nr={g} text {t:?}")));
                        break;
                    }
                    (Some(w), None) if !w.is_empty() => {
                        lost = true;
                        mismatch_group = Some(g);
                        mismatch = Some(("group-text(analyze)".into(), format!("Group nr={g} text {w:?}"), "absent".into()));
                        break;
                    }
                    (Some(w), Some(t)) if w != t => {
                        lost = t.is_empty();
                        mismatch_group = Some(g);
                        mismatch = Some(("group-text(analyze)".into(), format!("Group nr={g} text {w:?}"), format!("text {t:?}")));
                        break;
                    }
                    _ => {}
                }
            }
            // nesting: when the reference spans are nested, the tree must nest the same way
            if mismatch.is_none() {
                for (nr, _, chain) in &gs {
                    let p = parents[*nr] as usize;
                    if p != 0 {
                        if let (Some((ga, gb)), Some((pa, pb))) = (rm.caps[*nr], rm.caps[p]) {
                            if pa <= ga && gb <= pb && gb > ga && !chain.contains(&p) {
                                mismatch = Some(("nesting".into(), format!("Group nr={nr} inside Group nr={p}"), format!("ancestors {chain:?}")));
                                break;
                            }
                        }
                    }
                    // a group may only be nested inside its pattern ancestors
                    for anc in chain {
                        let mut q = parents[*nr] as usize;
                        let mut ok = false;
                        while q != 0 {
                            if q == *anc {
                                ok = true;
                                break;
                            }
                            q = parents[q] as usize;
                        }
                        if !ok {
                            mismatch = Some(("nesting".into(), format!("Group nr={nr} only inside its enclosing groups"), format!("inside Group nr={anc}")));
                        }
                    }
                }
            }
            if let Some((sub, expected, actual)) = mismatch {
                let mut regions = vec![];
                let symptom = if sub == "group-absent(analyze)" && actual.ends_with("text \"\"") {
                    "nonparticipating-group-empty-in-analyze"
                } else if lost {
                    "group-lost"
                } else {
                    "group-text-mismatch"
                };
                if let Some(g) = mismatch_group {
                    if group_under_quantifier(&m.node, g as u32) {
                        regions.push("group_inside_quantifier");
                    }
                }
                if let Some(g) = mismatch_group {
                    if m.node.groups_in_loops().contains(&(g as u32)) {
                        regions.push("capturing_group_inside_loop");
                    }
                }
                if o.cutoff {
                    regions.push("force_progress_cutoff");
                }
                if m.node.backref_to_group_in_fixed_loop() {
                    // the engine may have taken another path than the ordered-choice one (same span, other captures)
                    regions.push("backref_to_group_in_fixed_length_loop");
                }
                if let Some(id) = ctx.known.attribute(prop, &regions, symptom) {
                    known_hit = Some(id);
                    continue;
                }
                return Verdict::Fail(Failure { sub, expected, actual, detail: format!("pattern={:?} flags={:?} input={:?} match #{k} span={:?} tree={:?}", m.pattern, case.flags, o.input, o.a_spans[k], tree) });
            }
            if participated > 0 {
                ctx.obs.label("group-participated");
                if backtracked {
                    ctx.obs.label("backtracked-over-group");
                    ctx.obs.nontrivial(&(&m.pattern, &case.flags, &o.input));
                }
            }
        }
    }
    ctx.obs.label(if strict { "clause=oracle+structural" } else { "clause=structural-only" });
    if ng > 9 {
        ctx.obs.label("groups>9");
    }
    ctx.obs.sample(|| case.describe(Dialect::XPath, EXTRA));
    match known_hit {
        Some(id) => Verdict::Known(id),
        None => Verdict::Pass,
    }
}

pub fn capture_cfg() -> GenCfg {
    let mut cfg = GenCfg::basic(&['a', 'b', 'c', 'd']);
    cfg.w_empty = 1;
    cfg.w_anchor = 1;
    cfg.w_backref = 0;
    cfg.w_esc = 0;
    cfg.w_class = 1;
    cfg.noncap = true;
    cfg.size = 20;
    cfg
}

/// many groups: a sequence of 10-13 small groups, some optional
fn many_groups() -> BoxedStrategy<Node> {
    let g = prop_oneof![
        3 => prop::sample::select(vec!['a', 'b', 'c', 'd']).prop_map(|c| Node::cap(Node::Lit(c))),
        1 => prop::sample::select(vec!['a', 'b']).prop_map(|c| Node::rep(Node::cap(Node::Lit(c)), 0, Some(1), true)),
        1 => (prop::sample::select(vec!['a', 'b']), prop::sample::select(vec!['c', 'd'])).prop_map(|(x, y)| Node::Alt(vec![Node::cap(Node::Lit(x)), Node::cap(Node::Lit(y))])).prop_map(Node::ncap),
        1 => prop::sample::select(vec!['a', 'b']).prop_map(|c| Node::cap(Node::cap(Node::Lit(c)))),
    ];
    prop::collection::vec(g, 8..13).prop_map(Node::Cat).boxed()
}

/// trees of capturing groups with possibly-empty members: the shapes in which nesting of zero-length groups matters
fn nested_groups() -> BoxedStrategy<Node> {
    let lit = prop::sample::select(vec!['a', 'b', 'c']).prop_map(Node::Lit);
    let leaf = prop_oneof![
        4 => lit.clone(),
        2 => lit.clone().prop_map(|l| Node::cap(Node::rep(l, 0, Some(1), true))),
        2 => lit.clone().prop_map(|l| Node::cap(Node::rep(l, 0, None, true))),
        1 => lit.clone().prop_map(|l| Node::cap(Node::Alt(vec![l, Node::Empty]))),
        1 => lit.clone().prop_map(|l| Node::cap(Node::Alt(vec![Node::Empty, l]))),
        1 => Just(Node::cap(Node::Empty)),
        2 => lit.clone().prop_map(Node::cap),
        1 => lit.clone().prop_map(|l| Node::rep(Node::cap(l), 0, Some(1), true)),
    ];
    leaf.prop_recursive(4, 16, 3, |inner| {
        prop_oneof![
            3 => prop::collection::vec(inner.clone(), 1..4).prop_map(|v| Node::cap(Node::Cat(v))),
            1 => prop::collection::vec(inner.clone(), 2..4).prop_map(Node::Cat),
            1 => prop::collection::vec(inner, 2..3).prop_map(|v| Node::cap(Node::Alt(v))),
        ]
    })
    .boxed()
}

impl Prop for C03 {
    type Case = AstCase;
    fn id(&self) -> &'static str {
        "C03"
    }
    fn enumerations(&self, tier: Tier) -> Vec<(String, String, Box<dyn Iterator<Item = AstCase> + Send>)> {
        // every arrangement of capturing groups over a, b? and the empty term up to a size bound
        let cfg = crate::enumerate::EnumCfg {
            atoms: vec![Node::Lit('a'), Node::rep(Node::Lit('b'), 0, Some(1), true), Node::Empty],
            quants: vec![],
            cap: true,
            noncap: false,
            alt: false,
            backref: false,
        };
        let size = tier.pick(9, 10);
        let nodes: Vec<Node> = crate::enumerate::up_to(&cfg, size).into_iter().filter(|n| n.n_groups() >= 2).collect();
        let inputs = crate::enumerate::inputs(&['a', 'b'], 3);
        let scope = format!("all {} ASTs of size <= {} built from a, b?, the empty term, sequence and capturing groups (>= 2 groups) x all {} inputs over {{a,b}} of length <= 3", nodes.len(), size, inputs.len());
        let it = nodes.into_iter().map(move |node| AstCase { node, flags: String::new(), inputs: Inputs::Lit(inputs.clone()) });
        // groups under quantifiers, inside bodies that are themselves repeated: which iteration's capture survives
        let cfg2 = crate::enumerate::EnumCfg {
            atoms: vec![
                Node::Lit('a'),
                Node::Lit('b'),
                Node::Dot,
                Node::cap(Node::Lit('a')),
                Node::rep(Node::cap(Node::Lit('b')), 0, Some(1), true),
                Node::rep(Node::cap(Node::Lit('b')), 0, None, true),
                Node::cap(Node::Alt(vec![Node::Lit('a'), Node::Lit('b')])),
            ],
            quants: vec![(0, Some(1), true), (0, None, true), (1, None, true), (2, Some(2), true), (2, Some(3), true), (0, None, false), (1, None, false)],
            cap: false,
            noncap: false,
            alt: true,
            backref: false,
        };
        let size2 = tier.pick(5, 6);
        let nodes2: Vec<Node> = crate::enumerate::up_to(&cfg2, size2).into_iter().filter(|n| n.n_groups() >= 1).collect();
        let inputs2 = crate::enumerate::inputs(&['a', 'b'], 4);
        let scope2 = format!(
            "all {} ASTs of size <= {} with >= 1 group over atoms {{a, b, ., (a), (b)?, (b)*, (a|b)}} (each one node) x quantifiers {{?,*,+,{{2}},{{2,3}},*?,+?}} with concatenation and alternation x all {} inputs over {{a,b}} of length <= 4",
            nodes2.len(),
            size2,
            inputs2.len()
        );
        let it2 = nodes2.into_iter().map(move |node| AstCase { node, flags: String::new(), inputs: Inputs::Lit(inputs2.clone()) });
        vec![("exhaustive-group-nesting".into(), scope, Box::new(it)), ("exhaustive-groups-in-loops".into(), scope2, Box::new(it2))]
    }
    fn extra(&self, ctx: &mut Ctx) -> Vec<(String, Verdict, Option<AstCase>)> {
        // the target `spans` also compares every group's text on the reference's matches
        super::c01::lang_campaign("C03", "spans", ctx, &|case, ctx| check_captures("C03", case, ctx))
    }
    fn parts(&self, tier: Tier) -> Vec<Part<AstCase>> {
        let mut cfg = capture_cfg();
        cfg.cap = true;
        let s = (gen::node_strategy(&cfg), gen::flags_strategy("is"), gen::raw_inputs(8, 10))
            .prop_map(|(node, flags, inputs)| AstCase { node, flags, inputs: Inputs::Raw(inputs) })
            .boxed();
        let s2 = (many_groups(), gen::raw_inputs(6, 14)).prop_map(|(node, inputs)| AstCase { node, flags: String::new(), inputs: Inputs::Raw(inputs) }).boxed();
        vec![
            Part { name: "random".into(), strategy: s, cases: tier.pick(250_000, 5_000_000) },
            Part { name: "many-groups".into(), strategy: s2, cases: tier.pick(40_000, 500_000) },
            Part { name: "scaled".into(), strategy: super::c01::scaled_part(&cfg, "is"), cases: tier.pick(30_000, 400_000) },
            Part {
                name: "nested-groups".into(),
                strategy: (nested_groups(), gen::raw_inputs(8, 6)).prop_map(|(node, inputs)| AstCase { node, flags: String::new(), inputs: Inputs::Raw(inputs) }).boxed(),
                cases: tier.pick(100_000, 2_000_000),
            },
        ]
    }
    fn check(&self, case: &AstCase, ctx: &mut Ctx) -> Verdict {
        check_captures("C03", case, ctx)
    }
    fn describe(&self, case: &AstCase) -> Value {
        case.describe(Dialect::XPath, EXTRA)
    }
    fn rule(&self) -> String {
        "evaluation = one reported match whose group texts ($N through replace_all with non-digit delimiters, Group{nr} through analyze) are checked: structurally on every match (tree concat = match text, numbers in range, each group once, $N agrees with Group N), and against the R2 reference's last-participation captures where the span list agrees with R2 under C02's strict clause; non-trivial = a group participated and R2 abandoned at least one group attempt while matching that input; distinct = distinct (pattern, flags, input)".into()
    }
    fn guards(&self) -> Vec<Guard> {
        vec![
            Guard { label: "clause=oracle+structural".into(), of: "".into(), min_fraction: 0.15 },
            Guard { label: "backtracked-over-group".into(), of: "group-participated".into(), min_fraction: 0.1 },
            Guard { label: "groups>9".into(), of: "".into(), min_fraction: 0.02 },
        ]
    }
    fn assumptions(&self) -> Vec<String> {
        vec!["a participating group that matched the empty string may be absent or an empty Group in analyze output".into(), "captures are compared only where the span list agrees with R2 (a span disagreement is C02's business)".into()]
    }
}
