//! Shared observation of match spans and captures through replace_all (with marker replacement),
//! tokenize and analyze; used by C02, C03, C04, C11, C12, C19, C20.
use super::common::*;
use crate::driver::*;
use crate::proto::*;

#[derive(Clone, Debug)]
pub struct InputObs {
    pub input: String,
    pub n: usize,
    pub is_match: bool,
    pub entries: Vec<AEntry>,
    pub a_spans: Vec<(usize, usize)>,
    /// spans and group texts ($1..$n) recovered from replace_all with the marker replacement
    pub r_spans: Vec<(usize, usize)>,
    pub r_groups: Vec<Vec<String>>,
    pub replaced_plain: Option<String>,
    pub tokens: Vec<String>,
    pub cutoff: bool,
}

pub enum Observed {
    Ok(Vec<InputObs>, Facts),
    /// the regex matches the empty string according to the engine (all three APIs refused)
    Nullable,
    CompileErr(ErrKind),
    Skip(&'static str),
    /// the three APIs disagree on *whether* they work at all, or output could not be parsed: a C04-type failure
    Inconsistent(String),
}

pub fn marker_replacement(ngroups: usize) -> String {
    let mut r = String::from("\u{1}$0\u{2}");
    for g in 1..=ngroups {
        r.push('\u{3}');
        r.push('$');
        r.push_str(&g.to_string());
        r.push('\u{4}');
    }
    r
}

/// parse the output of replace_all with `marker_replacement(n)`: (spans, per-match group texts)
pub fn parse_marked(out: &str, ngroups: usize) -> Option<(Vec<(usize, usize)>, Vec<Vec<String>>)> {
    let cs: Vec<char> = out.chars().collect();
    let mut i = 0;
    let mut pos = 0usize;
    let mut spans = vec![];
    let mut groups = vec![];
    while i < cs.len() {
        match cs[i] {
            '\u{1}' => {
                i += 1;
                let start = pos;
                while i < cs.len() && cs[i] != '\u{2}' {
                    if matches!(cs[i], '\u{1}' | '\u{3}' | '\u{4}') {
                        return None;
                    }
                    pos += 1;
                    i += 1;
                }
                if i >= cs.len() {
                    return None;
                }
                i += 1;
                spans.push((start, pos));
                let mut g = vec![];
                for _ in 0..ngroups {
                    if i >= cs.len() || cs[i] != '\u{3}' {
                        return None;
                    }
                    i += 1;
                    let mut t = String::new();
                    while i < cs.len() && cs[i] != '\u{4}' {
                        if matches!(cs[i], '\u{1}' | '\u{2}' | '\u{3}') {
                            return None;
                        }
                        t.push(cs[i]);
                        i += 1;
                    }
                    if i >= cs.len() {
                        return None;
                    }
                    i += 1;
                    g.push(t);
                }
                groups.push(g);
            }
            '\u{2}' | '\u{3}' | '\u{4}' => return None,
            _ => {
                pos += 1;
                i += 1;
            }
        }
    }
    Some((spans, groups))
}

/// Run all APIs on the case; `plain_rep` is an additional metacharacter-free replacement (C04).
pub fn observe(dialect: Dialect, pattern: &str, flags: &str, inputs: &[String], ngroups: usize, plain_rep: Option<&str>, ctx: &mut Ctx) -> Observed {
    let mut job = Job::new(dialect, pattern, flags);
    job.inputs = inputs.to_vec();
    job.replacements = vec![marker_replacement(ngroups)];
    if let Some(p) = plain_rep {
        job.replacements.push(p.to_string());
    }
    let res = ctx.w.run(&job);
    let out = match res {
        JobResult::Done(o) => o,
        JobResult::Hang => return Observed::Skip("hang"),
        JobResult::Died(_) => return Observed::Skip("died"),
    };
    let facts = match &out.compile {
        Res::Ok(f) => f.clone(),
        Res::Err(k) => return Observed::CompileErr(k.clone()),
        Res::Panic(_) => return Observed::Skip("panic"),
    };
    let mut v = vec![];
    let mut nullable_votes = 0;
    let mut total_votes = 0;
    for (i, io) in out.per_input.iter().enumerate() {
        let input = &inputs[i];
        let n = input.chars().count();
        let is_match = match io.is_match.as_ref() {
            Some(Res::Ok(b)) => *b,
            _ => return Observed::Skip("panic"),
        };
        let rep = &io.replace[0];
        let tok = io.tokens.as_ref().unwrap();
        let ana = io.analyze.as_ref().unwrap();
        if rep.is_panic() || tok.is_panic() || ana.is_panic() {
            return Observed::Skip("panic");
        }
        // MatchesEmptyString must be reported by all three or none (tokenize on "" is exempt)
        let r_null = rep.err() == Some(&ErrKind::MatchesEmptyString);
        let a_null = ana.err() == Some(&ErrKind::MatchesEmptyString);
        let t_null = tok.err() == Some(&ErrKind::MatchesEmptyString);
        total_votes += 1;
        if r_null || a_null || t_null {
            if !(r_null && a_null && (t_null || input.is_empty())) {
                return Observed::Inconsistent(format!("on input {input:?}: replace_all={rep:?} tokenize={tok:?} analyze={ana:?} disagree about MatchesEmptyString"));
            }
            nullable_votes += 1;
            continue;
        }
        let (rep, tok, ana) = match (rep, tok, ana) {
            (Res::Ok(r), Res::Ok(t), Res::Ok(a)) => (r, t, a),
            _ => return Observed::Inconsistent(format!("on input {input:?}: unexpected errors replace_all={rep:?} tokenize={tok:?} analyze={ana:?}")),
        };
        if tok.panic.is_some() || ana.panic.is_some() {
            return Observed::Skip("panic");
        }
        if tok.capped || ana.capped {
            return Observed::Skip("endless-iterator");
        }
        let (r_spans, r_groups) = match parse_marked(rep, ngroups) {
            Some(x) => x,
            None => return Observed::Inconsistent(format!("on input {input:?}: output of replace_all with marker replacement is malformed: {rep:?}")),
        };
        let replaced_plain = if plain_rep.is_some() {
            match &io.replace[1] {
                Res::Ok(s) => Some(s.clone()),
                other => return Observed::Inconsistent(format!("on input {input:?}: replace_all with a plain replacement failed: {other:?}")),
            }
        } else {
            None
        };
        v.push(InputObs {
            input: input.clone(),
            n,
            is_match,
            entries: ana.items.clone(),
            a_spans: analyze_spans(&ana.items),
            r_spans,
            r_groups,
            replaced_plain,
            tokens: tok.items.clone(),
            cutoff: io.any_cutoff() || out.compile_cutoffs > 0,
        });
    }
    if nullable_votes > 0 {
        if nullable_votes != total_votes {
            return Observed::Inconsistent("MatchesEmptyString reported for some inputs but not for others".into());
        }
        return Observed::Nullable;
    }
    Observed::Ok(v, facts)
}
