//! C11 — flag i makes matching case-insensitive, and only flag i does.
use super::c01::check_is_match;
use super::c02::check_spans;
use super::common::*;
use crate::ast::*;
use crate::driver::*;
use crate::gen::{self, GenCfg};
use crate::proto::*;
use crate::ucd;
use icu_casemap::CaseMapCloser;
use icu_collections::codepointinvlist::CodePointInversionListBuilder;
use proptest::prelude::*;
use serde::{Deserialize, Serialize};
use serde_json::{json, Value};

pub struct C11;

#[derive(Clone, Debug, PartialEq, Eq, Hash, Serialize, Deserialize)]
pub struct Case11 {
    pub ast: AstCase,
    /// which input characters to case-swap (bit k of element j: character k of input j)
    pub swap_in: Vec<u32>,
    /// which pattern letters to case-swap (bit k: k-th letter-bearing leaf)
    pub swap_pat: u32,
}

/// candidate (lower, upper) pairs; filtered at start-up to those with a two-element case orbit
fn candidates() -> Vec<(char, char)> {
    let mut v = vec![];
    for c in 'a'..='z' {
        if c != 'k' && c != 's' {
            v.push((c, c.to_ascii_uppercase()));
        }
    }
    for u in 0xE0u32..=0xFE {
        if u != 0xF7 {
            v.push((char::from_u32(u).unwrap(), char::from_u32(u - 0x20).unwrap()));
        }
    }
    for u in 0x3B1u32..=0x3C9 {
        if u != 0x3C2 {
            v.push((char::from_u32(u).unwrap(), char::from_u32(u - 0x20).unwrap()));
        }
    }
    for u in 0x430u32..=0x44F {
        v.push((char::from_u32(u).unwrap(), char::from_u32(u - 0x20).unwrap()));
    }
    for u in 0x10428u32..=0x1044F {
        v.push((char::from_u32(u).unwrap(), char::from_u32(u - 0x28).unwrap()));
    }
    v
}

/// pairs (l,u) with simple_upper(l)=u, simple_lower(u)=l and case closure exactly {l,u}
pub fn safe_pairs() -> Vec<(char, char)> {
    thread_local! {
        static SAFE: Vec<(char, char)> = compute_safe_pairs();
    }
    SAFE.with(|v| v.clone())
}

fn compute_safe_pairs() -> Vec<(char, char)> {
    let closer = CaseMapCloser::new();
    let mut out = vec![];
    for (l, u) in candidates() {
        if ucd::counterpart(l) != Some(u) || ucd::counterpart(u) != Some(l) {
            continue;
        }
        let mut ok = true;
        for c in [l, u] {
            let mut b = CodePointInversionListBuilder::new();
            closer.add_case_closure_to(c, &mut b);
            b.add_char(c);
            let set = b.build();
            if set.size() != 2 || !set.contains(l) || !set.contains(u) {
                ok = false;
            }
        }
        if ok {
            out.push((l, u));
        }
    }
    out
}

pub const CASELESS: &[char] = &['1', '7', ' ', '\n', '-', '_', '!'];

fn lits() -> Vec<char> {
    let pairs = safe_pairs();
    // a spread over the scripts: ASCII, Latin-1, Greek, Cyrillic, Deseret
    let mut v = vec![];
    let pick = |range: std::ops::RangeInclusive<u32>, n: usize, v: &mut Vec<char>| {
        let inr: Vec<&(char, char)> = pairs.iter().filter(|(l, _)| range.contains(&(*l as u32))).collect();
        for (i, (l, u)) in inr.iter().enumerate() {
            if i < n {
                v.push(*l);
                v.push(*u);
            }
        }
    };
    pick(0x61..=0x7A, 4, &mut v);
    pick(0xE0..=0xFE, 2, &mut v);
    pick(0x3B1..=0x3C9, 2, &mut v);
    pick(0x430..=0x44F, 2, &mut v);
    pick(0x10428..=0x1044F, 1, &mut v);
    v.extend(CASELESS.iter().cloned());
    v
}

fn swap(c: char) -> char {
    ucd::counterpart(c).unwrap_or(c)
}

/// swap the case of the selected letter-bearing leaves (range end points together)
fn swap_pattern(n: &Node, mask: u32, idx: &mut u32) -> Node {
    let mut take = || {
        let b = *idx < 32 && (mask >> *idx) & 1 == 1;
        *idx += 1;
        b
    };
    match n {
        Node::Lit(c) => {
            if take() {
                Node::Lit(swap(*c))
            } else {
                n.clone()
            }
        }
        Node::Class(ce) => Node::Class(swap_class(ce, mask, idx)),
        Node::Group(k, b) => Node::Group(*k, Box::new(swap_pattern(b, mask, idx))),
        Node::Alt(v) => Node::Alt(v.iter().map(|c| swap_pattern(c, mask, idx)).collect()),
        Node::Cat(v) => Node::Cat(v.iter().map(|c| swap_pattern(c, mask, idx)).collect()),
        Node::Rep { body, min, max, greedy, brace } => Node::Rep { body: Box::new(swap_pattern(body, mask, idx)), min: *min, max: *max, greedy: *greedy, brace: *brace },
        other => other.clone(),
    }
}

fn swap_class(ce: &ClassExpr, mask: u32, idx: &mut u32) -> ClassExpr {
    let mut items = vec![];
    for it in &ce.items {
        let b = *idx < 32 && (mask >> *idx) & 1 == 1;
        *idx += 1;
        items.push(match it {
            Item::Char(c) if b => Item::Char(swap(*c)),
            Item::Range(x, y) if b => {
                let (sx, sy) = (swap(*x), swap(*y));
                // only when the whole range maps order-preservingly (same offset at both ends, and both moved)
                if sx != *x && sy != *y && (sx as i64 - *x as i64) == (sy as i64 - *y as i64) && sx <= sy {
                    Item::Range(sx, sy)
                } else {
                    it.clone()
                }
            }
            other => other.clone(),
        });
    }
    ClassExpr { neg: ce.neg, items, sub: ce.sub.as_ref().map(|s| Box::new(swap_class(s, mask, idx))) }
}

/// does the pattern contain a class escape that tells the two cases of some alphabet letter apart (\\p{Lu}, \\p{Ll}, ...)?
/// For such patterns swapping the case of an input character legitimately changes the result.
fn has_case_sensitive_escape(n: &Node, pairs: &[(char, char)]) -> bool {
    let sens = |e: &Esc| pairs.iter().any(|(l, u)| ucd::esc_contains(e, *l) != ucd::esc_contains(e, *u));
    fn class_has(c: &ClassExpr, sens: &dyn Fn(&Esc) -> bool) -> bool {
        c.items.iter().any(|i| matches!(i, Item::Esc(e) if sens(e))) || c.sub.as_ref().map_or(false, |s| class_has(s, sens))
    }
    n.any(&|x| match x {
        Node::Esc(e) => sens(e),
        Node::Class(c) => class_has(c, &sens),
        _ => false,
    })
}

fn has_negation(n: &Node) -> bool {
    n.any(&|x| match x {
        Node::Class(c) => c.has_neg_or_sub(),
        Node::Esc(e) => e.neg,
        _ => false,
    })
}

type SpanRes = (bool, Option<Vec<(usize, usize)>>);

/// (is_match, spans) per input, and whether a force-progress cut-off fired for that input
fn run_spans(pattern: &str, flags: &str, inputs: &[String], ctx: &mut Ctx) -> Option<(Vec<SpanRes>, Vec<bool>)> {
    let mut job = Job::new(Dialect::XPath, pattern, flags);
    job.inputs = inputs.to_vec();
    job.apis = API_IS_MATCH | API_ANALYZE;
    let out = match ctx.w.run(&job) {
        JobResult::Done(o) => o,
        _ => return None,
    };
    out.compile.ok()?;
    let mut v = vec![];
    let mut cuts = vec![];
    for io in &out.per_input {
        cuts.push(io.any_cutoff() || out.compile_cutoffs > 0);
        let m = *io.is_match.as_ref()?.ok()?;
        let spans = match io.analyze.as_ref()? {
            Res::Ok(it) if it.panic.is_none() && !it.capped => Some(analyze_spans(&it.items)),
            Res::Err(ErrKind::MatchesEmptyString) => None,
            _ => return None,
        };
        v.push((m, spans));
    }
    Some((v, cuts))
}

/// a self-comparison of the engine failed: is it explained by a listed finding?
fn attributed(ctx: &Ctx, cut_a: bool, cut_b: bool, fixed_loop: bool) -> Option<String> {
    let mut regions = vec![];
    if cut_a || cut_b {
        regions.push("force_progress_cutoff");
    }
    if fixed_loop {
        regions.push("backref_to_group_in_fixed_length_loop");
    }
    ctx.known.attribute("C11", &regions, "results-differ")
}

pub fn check_case(case: &Case11, ctx: &mut Ctx) -> Verdict {
    let m = case.ast.materialize(Dialect::XPath, &[]);
    let with_i = m.flags.i;
    ctx.obs.label(if with_i { "flag-i" } else { "no-flag-i" });
    // (1) oracle: is_match and spans with the case-blind comparison rule of the statement
    let v1 = check_is_match("C11", &case.ast, ctx);
    if matches!(v1, Verdict::Fail(_) | Verdict::Skip(_)) {
        return v1;
    }
    let v2 = check_spans("C11", &case.ast, ctx);
    if matches!(v2, Verdict::Fail(_)) {
        return v2;
    }
    let mut known = None;
    for v in [&v1, &v2] {
        if let Verdict::Known(id) = v {
            known = Some(id.clone());
        }
    }
    if known.is_some() {
        // relations below compare the engine with itself and could differ only through the known region
        return Verdict::Known(known.unwrap());
    }
    let (base, base_cut) = match run_spans(&m.pattern, &case.ast.flags, &m.inputs, ctx) {
        Some(b) => b,
        None => return Verdict::Skip("panic"),
    };
    let fixed_loop = m.node.backref_to_group_in_fixed_loop();
    let mut known_hit: Option<String> = None;
    let detail = |extra: String| format!("pattern={:?} flags={:?} {extra}", m.pattern, case.ast.flags);
    let case_sensitive_escape = has_case_sensitive_escape(&m.node, &safe_pairs());
    if case_sensitive_escape {
        ctx.obs.label("has-case-sensitive-escape(swap relations not applicable)");
    }
    if with_i && !case_sensitive_escape {
        // (2a) swapping the case of input characters changes nothing
        let swapped_inputs: Vec<String> = m
            .inputs
            .iter()
            .enumerate()
            .map(|(j, s)| {
                let mask = case.swap_in.get(j).copied().unwrap_or(0);
                s.chars().enumerate().map(|(k, c)| if k < 32 && (mask >> k) & 1 == 1 { swap(c) } else { c }).collect()
            })
            .collect();
        let (r, r_cut) = match run_spans(&m.pattern, &case.ast.flags, &swapped_inputs, ctx) {
            Some(b) => b,
            None => return Verdict::Skip("panic"),
        };
        for j in 0..m.inputs.len() {
            ctx.obs.eval(1);
            if swapped_inputs[j] != m.inputs[j] {
                ctx.obs.label("input-case-swapped");
                ctx.obs.nontrivial(&(&m.pattern, &case.ast.flags, &m.inputs[j], &swapped_inputs[j]));
            }
            if r[j] != base[j] {
                if let Some(id) = attributed(ctx, base_cut[j], r_cut[j], fixed_loop) {
                    known_hit = Some(id);
                    continue;
                }
                return Verdict::Fail(Failure {
                    sub: "input-case-swap".into(),
                    expected: format!("same is_match and spans for {:?} and {:?}: {:?}", m.inputs[j], swapped_inputs[j], base[j]),
                    actual: format!("{:?}", r[j]),
                    detail: detail(String::new()),
                });
            }
        }
        // (2b) swapping the case of pattern letters changes nothing
        let mut idx = 0;
        let node2 = swap_pattern(&m.node, case.swap_pat, &mut idx);
        if node2 != m.node {
            let p2 = render(&node2, Dialect::XPath);
            let (r, r_cut) = match run_spans(&p2, &case.ast.flags, &m.inputs, ctx) {
                Some(b) => b,
                None => return Verdict::Skip("panic"),
            };
            ctx.obs.label("pattern-case-swapped");
            for j in 0..m.inputs.len() {
                ctx.obs.eval(1);
                ctx.obs.nontrivial(&(&m.pattern, &p2, &m.inputs[j]));
                if r[j] != base[j] {
                    if let Some(id) = attributed(ctx, base_cut[j], r_cut[j], fixed_loop) {
                        known_hit = Some(id);
                        continue;
                    }
                    return Verdict::Fail(Failure {
                        sub: "pattern-case-swap".into(),
                        expected: format!("same is_match and spans on {:?} for {:?} and {:?}: {:?}", m.inputs[j], m.pattern, p2, base[j]),
                        actual: format!("{:?}", r[j]),
                        detail: detail(String::new()),
                    });
                }
            }
        }
    } else if !has_negation(&m.node) {
        // (3) everything that matches without i still matches with it (no negated class / escape / subtraction)
        let fi = format!("{}i", case.ast.flags);
        let (r, r_cut) = match run_spans(&m.pattern, &fi, &m.inputs, ctx) {
            Some(b) => b,
            None => return Verdict::Skip("panic"),
        };
        ctx.obs.label("monotone-checked");
        for j in 0..m.inputs.len() {
            ctx.obs.eval(1);
            if base[j].0 && !r[j].0 {
                if let Some(id) = attributed(ctx, base_cut[j], r_cut[j], fixed_loop) {
                    known_hit = Some(id);
                    continue;
                }
                return Verdict::Fail(Failure {
                    sub: "monotone".into(),
                    expected: format!("is_match({:?}) stays true when flag i is added", m.inputs[j]),
                    actual: "false with i".into(),
                    detail: detail(String::new()),
                });
            }
        }
    }
    ctx.obs.sample(|| json!({"pattern": m.pattern, "flags": case.ast.flags, "inputs": m.inputs, "swap_pat": case.swap_pat}));
    if let Some(id) = known_hit {
        return Verdict::Known(id);
    }
    Verdict::Pass
}

fn cfg() -> GenCfg {
    let l = lits();
    let mut cfg = GenCfg::basic(&l);
    cfg.w_backref = 3;
    cfg.w_anchor = 1;
    cfg.w_class = 6;
    cfg.w_esc = 2;
    cfg.class.chars = l.clone();
    cfg.class.sub_depth = 1;
    let pairs = safe_pairs();
    // ranges inside contiguous, order-preserving segments
    let mut pool = vec![('a', 'c'), ('b', 'e'), ('A', 'C'), ('x', 'z'), ('0', '9'), ('m', 'p')];
    if pairs.iter().any(|p| p.0 == 'а') {
        pool.push(('а', 'г'));
        pool.push(('А', 'В'));
    }
    if pairs.iter().any(|p| p.0 == 'α') {
        pool.push(('α', 'γ'));
    }
    // beyond the BMP (Deseret: U+10400..U+10427 upper, U+10428..U+1044F lower, contiguous and order-preserving) and Latin-1
    if pairs.iter().any(|p| p.0 == '𐐨') {
        pool.push(('𐐨', '𐐪'));
        pool.push(('𐐀', '𐐂'));
        pool.push(('𐐁', '𐐧'));
    }
    if pairs.iter().any(|p| p.0 == 'à') {
        pool.push(('à', 'â'));
    }
    cfg.class.range_pool = pool;
    cfg
}

impl Prop for C11 {
    type Case = Case11;
    fn id(&self) -> &'static str {
        "C11"
    }
    fn parts(&self, tier: Tier) -> Vec<Part<Case11>> {
        let s = (gen::node_strategy(&cfg()), gen::flags_strategy("iims"), gen::raw_inputs(8, 7), prop::collection::vec(any::<u32>(), 8..=8), any::<u32>())
            .prop_map(|(node, flags, inputs, swap_in, swap_pat)| {
                // "iims": two chances for i; normalise duplicates
                let mut f: Vec<char> = flags.chars().collect();
                f.dedup();
                Case11 { ast: AstCase { node, flags: f.into_iter().collect(), inputs: Inputs::Raw(inputs) }, swap_in, swap_pat }
            })
            .boxed();
        let sc = (super::c01::scaled_part(&cfg(), "iims"), any::<u32>(), any::<u32>())
            .prop_map(|(mut ast, m_in, swap_pat)| {
                let mut f: Vec<char> = ast.flags.chars().collect();
                f.dedup();
                ast.flags = f.into_iter().collect();
                Case11 { ast, swap_in: vec![m_in; 8], swap_pat }
            })
            .boxed();
        vec![
            Part { name: "case".into(), strategy: s, cases: tier.pick(200_000, 4_000_000) },
            Part { name: "scaled".into(), strategy: sc, cases: tier.pick(20_000, 300_000) },
        ]
    }
    fn enumerations(&self, tier: Tier) -> Vec<(String, String, Box<dyn Iterator<Item = Case11> + Send>)> {
        // every small pattern over a letter in both cases, another letter, a digit and two classes, with and without i,
        // on every short input over the same characters; input and pattern swapped nowhere / everywhere / alternately
        let cfg = crate::enumerate::EnumCfg {
            atoms: vec![
                Node::Lit('a'),
                Node::Lit('A'),
                Node::Lit('b'),
                Node::Lit('1'),
                Node::Class(ClassExpr { neg: false, items: vec![Item::Char('a'), Item::Char('1')], sub: None }),
                Node::Class(ClassExpr { neg: true, items: vec![Item::Char('A')], sub: None }),
                Node::Class(ClassExpr { neg: false, items: vec![Item::Range('a', 'b')], sub: None }),
            ],
            quants: vec![(0, Some(1), true), (0, None, true), (1, None, true), (2, Some(2), true), (0, None, false)],
            cap: true,
            noncap: false,
            alt: true,
            backref: true,
        };
        let size = tier.pick(4, 5);
        let nodes = crate::enumerate::up_to(&cfg, size);
        let inputs = crate::enumerate::inputs(&['a', 'A', 'b', '1'], 3);
        let scope = format!("all {} ASTs of size <= {} over atoms {{a, A, b, 1, [a1], [^A], [a-b], \\N}} x quantifiers {{?,*,+,{{2}},*?}} with groups and alternation x flags {{i, ''}} x all {} inputs over {{a,A,b,1}} of length <= 3 x 3 swap masks", nodes.len(), size, inputs.len());
        let n_in = inputs.len();
        let it = nodes.into_iter().flat_map(move |node| {
            let inputs = inputs.clone();
            ["i", ""].into_iter().flat_map(move |f| {
                let (node, inputs) = (node.clone(), inputs.clone());
                [0u32, u32::MAX, 0x5555_5555].into_iter().map(move |mask| Case11 { ast: AstCase { node: node.clone(), flags: f.to_string(), inputs: Inputs::Lit(inputs.clone()) }, swap_in: vec![mask; n_in], swap_pat: mask })
            })
        });
        vec![("exhaustive-small".into(), scope, Box::new(it))]
    }
    fn check(&self, case: &Case11, ctx: &mut Ctx) -> Verdict {
        check_case(case, ctx)
    }
    fn extra(&self, _ctx: &mut Ctx) -> Vec<(String, Verdict, Option<Case11>)> {
        let n = safe_pairs().len();
        if n < 60 {
            eprintln!("harness error: only {n} case pairs passed validation");
            std::process::exit(2);
        }
        vec![]
    }
    fn describe(&self, case: &Case11) -> Value {
        let m = case.ast.materialize(Dialect::XPath, &[]);
        json!({"pattern": m.pattern, "flags": case.ast.flags, "inputs": m.inputs, "swap_in": case.swap_in, "swap_pat": case.swap_pat})
    }
    fn rule(&self) -> String {
        "evaluation = one comparison: engine vs R1/R2 under the case-blind rule of the statement; or the engine on a case-swapped input / pattern vs the original (flag i); or with flag i added vs without (monotone, patterns without negation/subtraction). Alphabets: letters whose simple case mapping is one-to-one with a two-element case closure (validated at start-up with ICU4X; ASCII without k,s, Latin-1, Greek, Cyrillic, Deseret) plus case-less characters; non-trivial = the compared inputs or patterns actually differ in case; distinct = distinct (pattern, flags, input, variant)".into()
    }
    fn guards(&self) -> Vec<Guard> {
        vec![
            Guard { label: "flag-i".into(), of: "".into(), min_fraction: 0.4 },
            Guard { label: "no-flag-i".into(), of: "".into(), min_fraction: 0.15 },
            Guard { label: "pattern-case-swapped".into(), of: "flag-i".into(), min_fraction: 0.5 },
            Guard { label: "monotone-checked".into(), of: "no-flag-i".into(), min_fraction: 0.3 },
        ]
    }
    fn assumptions(&self) -> Vec<String> {
        vec!["characters with more than one case counterpart (k/K/Kelvin, s/long s, sigma, mu, ...) are outside the generated alphabets; the statement quantifies over one-to-one mappings".into()]
    }
}
