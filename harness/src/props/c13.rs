//! C13 — flag q turns pattern and replacement into plain literal strings (oracle: literal substring search).
use super::c05::{idx_string, META, REPCH};
use super::common::*;
use crate::driver::*;
use crate::proto::*;
use crate::ucd;
use proptest::prelude::*;
use serde_json::Value;

pub struct C13;

const QFLAGS: &[&str] = &["q", "qi", "qm", "qs", "qx", "qmsx", "qix", "iq", "xq"];

fn eq(a: char, b: char, ci: bool) -> bool {
    ucd::cmp_char(a, b, ci)
}

/// leftmost non-overlapping occurrences of `pat` in `s`
pub fn literal_spans(s: &[char], pat: &[char], ci: bool) -> Vec<(usize, usize)> {
    let mut out = vec![];
    if pat.is_empty() {
        return out;
    }
    let mut i = 0;
    while i + pat.len() <= s.len() {
        if (0..pat.len()).all(|k| eq(pat[k], s[i + k], ci)) {
            out.push((i, i + pat.len()));
            i += pat.len();
        } else {
            i += 1;
        }
    }
    out
}

fn swap_case(s: &str) -> String {
    s.chars().map(|c| if c.is_ascii() { ucd::counterpart(c).unwrap_or(c) } else { c }).collect()
}

/// literals of 8 to 40 characters: over forty distinct characters (no character recurs) or over three (self-overlapping)
fn long_part() -> BoxedStrategy<StrCase> {
    const POOL: &[char] = &['a', 'b', 'c', 'd', 'e', 'f', 'g', 'h', 'i', 'j', '(', ')', '[', ']', '{', '}', '\\', '$', '^', '|', '?', '*', '+', '.', 'A', 'B', 'C', 'D', '0', '1', '2', '3', '-', ' ', 'é', '𐐀', 'k', 'l', 'm', 'n'];
    let pat = (8usize..=40, any::<u16>(), any::<bool>()).prop_map(|(n, r, distinct)| {
        let r = r as usize;
        (0..n).map(|k| if distinct { POOL[(r + k) % POOL.len()] } else { ['a', '(', 'b'][(r / (k + 1) + k * (1 + r % 2)) % 3] }).collect::<String>()
    });
    part_with(pat.boxed(), "long-literal")
}

fn part() -> BoxedStrategy<StrCase> {
    // unbalanced brackets over-weighted: a second alphabet of brackets only
    const BR: &[char] = &['(', ')', '[', ']', '{', '}', '\\', '(', ')', '$', '^', '|', '?', '*', '+', '.'];
    let pat = prop_oneof![3 => idx_string(META, 6), 2 => idx_string(BR, 4), 1 => (idx_string(BR, 2), idx_string(META, 3)).prop_map(|(a, b)| format!("{a}{b}"))];
    part_with(pat.boxed(), "literal")
}

fn part_with(pat: BoxedStrategy<String>, tag: &'static str) -> BoxedStrategy<StrCase> {
    let piece = prop_oneof![3 => Just(0u8), 2 => Just(1u8), 2 => Just(2u8), 3 => Just(3u8)];
    (pat, 0..QFLAGS.len(), prop::collection::vec(prop::collection::vec((piece, any::<u16>()), 0..5), 4..=4), prop::collection::vec(idx_string(REPCH, 4), 2..=2))
        .prop_map(|(pattern, fi, pieces, reps)| {
            let pc: Vec<char> = pattern.chars().collect();
            let filler = ['z', ' ', '(', 'a', '\n', '𐐀'];
            let inputs = pieces
                .iter()
                .map(|ps| {
                    let mut s = String::new();
                    for (k, a) in ps {
                        match k {
                            0 => s.push_str(&pattern),
                            1 => s.push_str(&swap_case(&pattern)),
                            2 => {
                                if !pc.is_empty() {
                                    let n = ((*a as usize) * pc.len()) >> 16;
                                    s.extend(pc[..n].iter());
                                }
                            }
                            _ => s.push(filler[((*a as usize) * filler.len()) >> 16]),
                        }
                    }
                    s
                })
                .collect();
            StrCase { dialect: Dialect::XPath, pattern, flags: QFLAGS[fi].to_string(), inputs, replacements: reps, tag: tag.into() }
        })
        .boxed()
}

pub fn check_literal(case: &StrCase, ctx: &mut Ctx) -> Verdict {
    let mut job = case.job();
    let mut inputs = case.inputs.clone();
    inputs.push(String::new());
    job.inputs = inputs.clone();
    let res = ctx.w.run(&job);
    let out = match &res {
        JobResult::Done(o) => o,
        JobResult::Hang => return Verdict::Skip("hang"),
        JobResult::Died(_) => return Verdict::Skip("died"),
    };
    let detail = format!("{}", case.describe());
    let fail = |sub: &str, expected: String, actual: String| Verdict::Fail(Failure { sub: sub.into(), expected, actual, detail: detail.clone() });
    match &out.compile {
        Res::Ok(_) => {}
        Res::Err(k) => return fail("accept-any-literal", "every string is a valid pattern under flag q".into(), format!("{k:?}")),
        Res::Panic(_) => return Verdict::Skip("panic"),
    }
    let ci = case.flags.contains('i');
    let pat: Vec<char> = case.pattern.chars().collect();
    let has_meta = pat.iter().any(|c| "()[]{}\\?*+|.^$".contains(*c));
    ctx.obs.label(&format!("flags={}", case.flags));
    for (i, input) in inputs.iter().enumerate() {
        let io = &out.per_input[i];
        let s: Vec<char> = input.chars().collect();
        let spans = literal_spans(&s, &pat, ci);
        ctx.obs.eval(3 + case.replacements.len() as u64);
        // is_match
        let want_match = pat.is_empty() || !spans.is_empty();
        match io.is_match.as_ref().unwrap() {
            Res::Ok(b) if *b == want_match => {}
            Res::Panic(_) => return Verdict::Skip("panic"),
            other => return fail("is_match", format!("is_match({input:?})={want_match}"), format!("{other:?}")),
        }
        let tok = io.tokens.as_ref().unwrap();
        let ana = io.analyze.as_ref().unwrap();
        // "tokenize, analyze and replace_all work for every non-empty literal": a panic is a failure of this property too
        if tok.is_panic() || ana.is_panic() || io.replace.iter().any(|r| r.is_panic()) {
            return fail("api-panics-on-literal", "all APIs work on any literal".into(), format!("tokenize={tok:?} analyze={ana:?} replace_all={:?}", io.replace));
        }
        if let (Res::Ok(t), Res::Ok(a)) = (tok, ana) {
            if t.panic.is_some() || a.panic.is_some() {
                return fail("api-panics-on-literal", "all APIs work on any literal".into(), format!("iterator step panicked: tokenize={:?} analyze={:?}", t.panic, a.panic));
            }
        }
        if pat.is_empty() {
            // the empty literal matches the empty string
            for r in &io.replace {
                if r.err() != Some(&ErrKind::MatchesEmptyString) {
                    return fail("empty-literal", "Err(MatchesEmptyString) from replace_all".into(), format!("{r:?}"));
                }
            }
            if ana.err() != Some(&ErrKind::MatchesEmptyString) {
                return fail("empty-literal", "Err(MatchesEmptyString) from analyze".into(), format!("{ana:?}"));
            }
            if input.is_empty() {
                if !matches!(tok, Res::Ok(t) if t.items.is_empty()) {
                    return fail("empty-literal", "tokenize(\"\") = no tokens".into(), format!("{tok:?}"));
                }
            } else if tok.err() != Some(&ErrKind::MatchesEmptyString) {
                return fail("empty-literal", "Err(MatchesEmptyString) from tokenize".into(), format!("{tok:?}"));
            }
            continue;
        }
        // replace_all: the replacement is used verbatim
        for (k, rep) in case.replacements.iter().enumerate() {
            let mut want = String::new();
            let mut p = 0;
            for (a, b) in &spans {
                want.extend(s[p..*a].iter());
                want.push_str(rep);
                p = *b;
            }
            want.extend(s[p..].iter());
            match &io.replace[k] {
                Res::Ok(got) if *got == want => {}
                other => return fail("replace_all", format!("replace_all({input:?}, {rep:?}) = {want:?}"), format!("{other:?}")),
            }
        }
        // tokenize: split on the literal
        let mut want_tokens: Vec<String> = vec![];
        if !s.is_empty() {
            let mut p = 0;
            for (a, b) in &spans {
                want_tokens.push(s[p..*a].iter().collect());
                p = *b;
            }
            want_tokens.push(s[p..].iter().collect());
        }
        match tok {
            Res::Ok(t) if t.items == want_tokens && !t.capped => {}
            other => return fail("tokenize", format!("tokenize({input:?}) = {want_tokens:?}"), format!("{other:?}")),
        }
        // analyze: alternating NonMatch / Match([String]) and never a Group
        let mut want_entries: Vec<AEntry> = vec![];
        let mut p = 0;
        for (a, b) in &spans {
            if *a > p {
                want_entries.push(AEntry::NonMatch(s[p..*a].iter().collect()));
            }
            want_entries.push(AEntry::Match(vec![MEntry::S(s[*a..*b].iter().collect())]));
            p = *b;
        }
        if p < s.len() {
            want_entries.push(AEntry::NonMatch(s[p..].iter().collect()));
        }
        match ana {
            Res::Ok(a) if a.items == want_entries && !a.capped => {}
            other => return fail("analyze", format!("analyze({input:?}) = {want_entries:?}"), format!("{other:?}")),
        }
        if !spans.is_empty() {
            ctx.obs.label("literal-occurs");
            if has_meta {
                ctx.obs.label("metachar-literal-occurs");
                ctx.obs.nontrivial(&(&case.pattern, &case.flags, input));
            }
            if ci && s[spans[0].0..spans[0].1] != pat[..] {
                ctx.obs.label("case-differs-occurrence");
            }
        }
    }
    ctx.obs.sample(|| case.describe());
    Verdict::Pass
}

impl Prop for C13 {
    type Case = StrCase;
    fn id(&self) -> &'static str {
        "C13"
    }
    fn parts(&self, tier: Tier) -> Vec<Part<StrCase>> {
        vec![
            Part { name: "literal".into(), strategy: part(), cases: tier.pick(800_000, 10_000_000) },
            Part { name: "long-literal".into(), strategy: long_part(), cases: tier.pick(100_000, 1_500_000) },
        ]
    }
    fn check(&self, case: &StrCase, ctx: &mut Ctx) -> Verdict {
        check_literal(case, ctx)
    }
    fn describe(&self, case: &StrCase) -> Value {
        case.describe()
    }
    fn rule(&self) -> String {
        "evaluation = one API call on a pattern compiled with flag q (alone or combined with i, m, s, x) compared with plain literal-substring semantics: is_match = occurrence, replace_all = leftmost non-overlapping replacement with the replacement verbatim, tokenize = split, analyze = NonMatch/Match(String) without groups; the empty pattern must be reported as matching the empty string; non-trivial = the pattern contains a regex metacharacter and occurs in the input; distinct = distinct (pattern, flags, input)".into()
    }
    fn guards(&self) -> Vec<Guard> {
        vec![
            Guard { label: "metachar-literal-occurs".into(), of: "".into(), min_fraction: 0.3 },
            Guard { label: "case-differs-occurrence".into(), of: "".into(), min_fraction: 0.02 },
        ]
    }
}
