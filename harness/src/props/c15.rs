//! C15 — replacement strings follow the $N and backslash rules exactly.
use super::common::*;
use crate::driver::*;
use crate::gen;
use crate::proto::*;
use proptest::prelude::*;
use serde::{Deserialize, Serialize};
use serde_json::{json, Value};

pub struct C15;

#[derive(Clone, Debug, PartialEq, Eq, Hash, Serialize, Deserialize)]
pub struct Case15 {
    /// group kinds; the pattern is x + one piece per entry (so it cannot match the empty string)
    pub groups: Vec<u8>,
    pub inputs: Vec<Vec<u16>>,
    pub reps: Vec<String>,
}

const LET: &[char] = &['a', 'b', 'c', 'd', 'e', 'f', 'g', 'h', 'j', 'k', 'l', 'm'];

/// pattern text for a list of group kinds
pub fn pattern_of(groups: &[u8]) -> String {
    let mut p = String::from("x");
    for (i, k) in groups.iter().enumerate() {
        let c = LET[i % LET.len()];
        match k % 5 {
            0 => p.push_str(&format!("({c})")),
            1 => p.push_str(&format!("({c})?")),
            2 => p.push_str(&format!("({c}|y)")),
            3 => p.push_str(&format!("(?:({c})|z)")),
            _ => p.push_str(&format!("({c}*)")),
        }
    }
    p
}

/// The rule of the statement. Err(()) = invalid replacement string.
pub fn expand(rep: &[char], whole: &str, groups: &[Option<String>], ngroups: usize) -> Result<String, ()> {
    let mut out = String::new();
    let mut i = 0;
    while i < rep.len() {
        match rep[i] {
            '\\' => {
                match rep.get(i + 1) {
                    Some(c @ ('\\' | '$')) => out.push(*c),
                    _ => return Err(()),
                }
                i += 2;
            }
            '$' => {
                let d = match rep.get(i + 1) {
                    Some(c) if c.is_ascii_digit() => c.to_digit(10).unwrap() as usize,
                    _ => return Err(()),
                };
                i += 2;
                let mut n = d;
                if ngroups > 9 {
                    while let Some(c) = rep.get(i) {
                        if let Some(x) = c.to_digit(10) {
                            let m = n * 10 + x as usize;
                            if m > ngroups {
                                break;
                            }
                            n = m;
                            i += 1;
                        } else {
                            break;
                        }
                    }
                }
                if n == 0 {
                    out.push_str(whole);
                } else if n <= ngroups {
                    if let Some(Some(t)) = groups.get(n - 1) {
                        out.push_str(t);
                    }
                }
            }
            c => {
                out.push(c);
                i += 1;
            }
        }
    }
    Ok(out)
}

fn group_texts(tree: &[MEntry], out: &mut Vec<Option<String>>) {
    for e in tree {
        if let MEntry::G(nr, inner) = e {
            if *nr >= 1 && *nr <= out.len() {
                out[*nr - 1] = Some(mentry_text(inner));
            }
            group_texts(inner, out);
        }
    }
}

pub fn check_replacement(case: &Case15, ctx: &mut Ctx) -> Verdict {
    let pattern = pattern_of(&case.groups);
    let ngroups = case.groups.len();
    let mut alpha: Vec<char> = vec!['x', 'x', 'y', 'z', 'q'];
    for i in 0..ngroups.max(1) {
        alpha.push(LET[i % LET.len()]);
        alpha.push('x');
    }
    // inputs: random strings over the alphabet plus the canonical full match
    let mut inputs: Vec<String> = case.inputs.iter().map(|r| gen::materialize_input(r, &alpha)).collect();
    let full: String = std::iter::once('x').chain((0..ngroups).map(|i| LET[i % LET.len()])).collect();
    inputs.push(format!("q{full}q{full}"));
    inputs.push(String::from("qq"));
    let mut job = Job::new(Dialect::XPath, &pattern, "");
    job.inputs = inputs.clone();
    job.replacements = case.reps.clone();
    job.apis = API_REPLACE | API_ANALYZE;
    let res = ctx.w.run(&job);
    let out = match &res {
        JobResult::Done(o) => o,
        JobResult::Hang => return Verdict::Skip("hang"),
        JobResult::Died(_) => return Verdict::Skip("died"),
    };
    if out.compile.ok().is_none() {
        return Verdict::Fail(Failure { sub: "compile".into(), expected: "pattern accepted".into(), actual: format!("{:?}", out.compile), detail: pattern });
    }
    ctx.obs.label(&format!("groups={}", if ngroups > 9 { ">9".to_string() } else { ngroups.to_string() }));
    for (i, input) in inputs.iter().enumerate() {
        let io = &out.per_input[i];
        let entries = match io.analyze.as_ref().unwrap() {
            Res::Ok(a) if a.panic.is_none() && !a.capped => &a.items,
            _ => return Verdict::Skip("panic"),
        };
        let n_matches = entries.iter().filter(|e| matches!(e, AEntry::Match(_))).count();
        for (k, rep) in case.reps.iter().enumerate() {
            ctx.obs.eval(1);
            let rc: Vec<char> = rep.chars().collect();
            // expected output from the engine's own match list
            let mut want: Result<String, ()> = Ok(String::new());
            if n_matches == 0 {
                want = Ok(input.clone());
            } else {
                let mut acc = String::new();
                for e in entries {
                    match e {
                        AEntry::NonMatch(s) => acc.push_str(s),
                        AEntry::Match(tree) => {
                            let mut gs = vec![None; ngroups];
                            group_texts(tree, &mut gs);
                            match expand(&rc, &mentry_text(tree), &gs, ngroups) {
                                Ok(t) => acc.push_str(&t),
                                Err(()) => {
                                    want = Err(());
                                    break;
                                }
                            }
                        }
                    }
                }
                if want.is_ok() {
                    want = Ok(acc);
                }
            }
            let got = &io.replace[k];
            let ok = match (&want, got) {
                (Ok(w), Res::Ok(g)) => w == g,
                (Err(()), Res::Err(ErrKind::InvalidReplacementString)) => true,
                (_, Res::Panic(_)) => return Verdict::Skip("panic"),
                _ => false,
            };
            if want.is_err() {
                ctx.obs.label("invalid-replacement-with-match");
            }
            if n_matches > 0 && (rep.contains('$') || rep.contains('\\')) {
                ctx.obs.label("match+metachar-replacement");
                ctx.obs.nontrivial(&(&pattern, input, rep));
            }
            if n_matches == 0 && expand(&rc, "", &vec![None; ngroups], ngroups).is_err() {
                ctx.obs.label("invalid-replacement-without-match");
            }
            if !ok {
                return Verdict::Fail(Failure {
                    sub: "replacement-expansion".into(),
                    expected: match &want {
                        Ok(w) => format!("Ok({w:?})"),
                        Err(()) => "Err(InvalidReplacementString)".into(),
                    },
                    actual: format!("{got:?}"),
                    detail: format!("pattern={pattern:?} ({ngroups} groups) input={input:?} replacement={rep:?} matches(analyze)={entries:?}"),
                });
            }
        }
    }
    ctx.obs.sample(|| json!({"pattern": pattern, "inputs": inputs, "replacements": case.reps}));
    Verdict::Pass
}

const RALPHA: &[char] = &['$', '\\', '0', '1', '2', '9', 'a'];

fn all_reps(max_len: usize) -> Vec<String> {
    crate::enumerate::inputs(RALPHA, max_len)
}

impl Prop for C15 {
    type Case = Case15;
    fn id(&self) -> &'static str {
        "C15"
    }
    fn parts(&self, tier: Tier) -> Vec<Part<Case15>> {
        const R2: &[char] = &['$', '\\', '0', '1', '2', '3', '9', 'a', '$', '1', '0'];
        let rep = prop::collection::vec(any::<u16>(), 0..8).prop_map(|v| v.iter().map(|i| R2[((*i as usize) * R2.len()) >> 16]).collect::<String>());
        let s = (prop::collection::vec(any::<u8>(), 0..=13), gen::raw_inputs(5, 14), prop::collection::vec(rep, 6..=6))
            .prop_map(|(groups, inputs, reps)| Case15 { groups, inputs, reps })
            .boxed();
        // many groups (up to 45, so that two-digit references reach real groups), long replacement strings, all ten digits
        const R3: &[char] = &['$', '\\', '0', '1', '2', '3', '4', '5', '6', '7', '8', '9', 'a', '$', '$', '1', '2', '3', '4', ' '];
        let rep3 = prop::collection::vec(any::<u16>(), 0..40).prop_map(|v| v.iter().map(|i| R3[((*i as usize) * R3.len()) >> 16]).collect::<String>());
        let s3 = (prop::collection::vec(any::<u8>(), 14..=45), gen::raw_inputs(4, 40), prop::collection::vec(rep3, 6..=6))
            .prop_map(|(groups, inputs, reps)| Case15 { groups, inputs, reps })
            .boxed();
        vec![
            Part { name: "random".into(), strategy: s, cases: tier.pick(250_000, 4_000_000) },
            Part { name: "scaled".into(), strategy: s3, cases: tier.pick(40_000, 600_000) },
        ]
    }
    fn enumerations(&self, tier: Tier) -> Vec<(String, String, Box<dyn Iterator<Item = Case15> + Send>)> {
        let len = tier.pick(4, 5);
        let reps = all_reps(len);
        let pats: Vec<Vec<u8>> = vec![vec![], vec![0], vec![0, 1], vec![3, 0, 1, 2, 0, 0, 0, 0, 0], vec![0, 1, 2, 3, 0, 0, 0, 0, 0, 0], vec![0, 1, 0, 3, 0, 0, 2, 0, 0, 0, 1, 0], vec![4, 1]];
        let scope = format!("all {} replacement strings of length <= {} over {{$,\\,0,1,2,9,a}} x {} patterns with 0,1,2,9,10,12 groups x 6 inputs", reps.len(), len, pats.len());
        let fixed_inputs: Vec<Vec<u16>> = vec![vec![0, 20000, 40000, 60000], vec![], vec![1000, 30000, 30000, 1000, 50000, 9000, 20000], vec![65000, 2, 40000]];
        let chunks: Vec<Vec<String>> = reps.chunks(40).map(|c| c.to_vec()).collect();
        let it = pats.into_iter().flat_map(move |g| {
            let fi = fixed_inputs.clone();
            chunks.clone().into_iter().map(move |c| Case15 { groups: g.clone(), inputs: fi.clone(), reps: c })
        });
        vec![("exhaustive-replacements".into(), scope, Box::new(it))]
    }
    fn check(&self, case: &Case15, ctx: &mut Ctx) -> Verdict {
        check_replacement(case, ctx)
    }
    fn describe(&self, case: &Case15) -> Value {
        json!({"pattern": pattern_of(&case.groups), "replacements": case.reps, "inputs(raw)": case.inputs.len()})
    }
    fn rule(&self) -> String {
        "evaluation = one replace_all(input, replacement) compared with an independent expansion of the replacement over the engine's own analyze match list ($N longest-prefix rule with > 9 groups, single digit otherwise, $0 whole match, missing group = nothing, \\$ and \\\\, anything else after $ or \\ invalid; invalid => Err iff a match exists); non-trivial = at least one match and the replacement contains $ or \\; distinct = distinct (pattern, input, replacement)".into()
    }
    fn guards(&self) -> Vec<Guard> {
        vec![
            Guard { label: "groups=>9".into(), of: "".into(), min_fraction: 0.1 },
            Guard { label: "invalid-replacement-with-match".into(), of: "".into(), min_fraction: 0.2 },
            Guard { label: "invalid-replacement-without-match".into(), of: "".into(), min_fraction: 0.05 },
        ]
    }
    fn assumptions(&self) -> Vec<String> {
        vec!["match spans and group texts are taken from the engine's analyze output, so matching defects (C02/C03) do not leak into this property".into()]
    }
}
