//! C07 — the compiler accepts exactly the XPath 3.1 regex grammar and flag set.
use crate::ast::*;
use crate::driver::*;
use crate::enumerate;
use crate::gen::{self, GenCfg};
use crate::proto::*;
use crate::ucd;
use proptest::prelude::*;
use serde::{Deserialize, Serialize};
use serde_json::{json, Value};

pub struct C07;

#[derive(Clone, Debug, PartialEq, Eq, Hash, Serialize, Deserialize)]
pub enum Case07 {
    /// must be accepted; `why` names the productions it exercises
    Valid { pattern: String, flags: String, why: String },
    /// must be rejected with Error::Syntax; `why` is the grammar argument
    Invalid { pattern: String, flags: String, why: String },
    /// flag string: Ok iff every letter is one of s m i x q
    Flags(String),
}

fn features(n: &Node, out: &mut Vec<&'static str>) {
    match n {
        Node::Empty => out.push("empty-branch"),
        Node::Lit(c) => out.push(if "\\|.-^?*+{}()[]$".contains(*c) { "single-char-escape" } else if matches!(c, '\n' | '\r' | '\t') { "escape-n-r-t" } else { "normal-char" }),
        Node::Dot => out.push("dot"),
        Node::Class(c) => {
            out.push(if c.neg { "neg-char-group" } else { "pos-char-group" });
            if c.sub.is_some() {
                out.push("class-subtraction");
            }
            for i in &c.items {
                out.push(match i {
                    Item::Char(_) => "class-char",
                    Item::Range(_, _) => "class-range",
                    Item::Esc(_) => "class-escape-item",
                })
            }
        }
        Node::Esc(e) => out.push(match e.kind {
            EscKind::Cat(_) => "category-escape",
            EscKind::Block(_) => "block-escape",
            _ => "multi-char-escape",
        }),
        Node::Bol => out.push("anchor-^"),
        Node::Eol => out.push("anchor-$"),
        Node::Group(k, _) => out.push(if *k == 0 { "non-capturing-group" } else { "capturing-group" }),
        Node::Alt(_) => out.push("alternation"),
        Node::Cat(_) => out.push("sequence"),
        Node::Rep { body, min, max, greedy, brace } => {
            out.push(match (min, max, brace) {
                (0, Some(1), false) => "quantifier-?",
                (0, None, false) => "quantifier-*",
                (1, None, false) => "quantifier-+",
                (a, Some(b), _) if a == b => "quantifier-{n}",
                (_, None, _) => "quantifier-{n,}",
                _ => "quantifier-{n,m}",
            });
            if !greedy {
                out.push("reluctant");
            }
            if matches!(**body, Node::Bol | Node::Eol) {
                out.push("quantified-anchor");
                if !greedy {
                    out.push("quantified-anchor-reluctant");
                }
            }
        }
        Node::BackRef(k) => out.push(if *k >= 10 { "back-reference-2-digits" } else { "back-reference" }),
    }
    for c in n.children() {
        features(c, out);
    }
}

pub const PRODUCTIONS: &[&str] = &[
    "empty-branch", "single-char-escape", "escape-n-r-t", "normal-char", "dot", "neg-char-group", "pos-char-group", "class-subtraction", "class-char", "class-range", "class-escape-item",
    "category-escape", "block-escape", "multi-char-escape", "anchor-^", "anchor-$", "non-capturing-group", "capturing-group", "alternation", "sequence", "quantifier-?", "quantifier-*",
    "quantifier-+", "quantifier-{n}", "quantifier-{n,}", "quantifier-{n,m}", "reluctant", "quantified-anchor", "quantified-anchor-reluctant", "back-reference", "back-reference-2-digits",
    "empty-group", "hyphen-at-class-edge", "every-category-name", "every-block-name", "flag-x-whitespace",
];

fn valid_ast() -> BoxedStrategy<Case07> {
    let mut cfg = GenCfg::basic(&['a', 'b', '1', '-', '$', '\n', '(', '*', 'é', '𐐀', ' ']);
    cfg.w_esc = 3;
    cfg.w_class = 4;
    cfg.w_anchor = 4;
    cfg.w_empty = 2;
    cfg.class.sub_depth = 2;
    cfg.class.chars = vec!['a', 'b', '-', '^', ']', '[', '\\', '1', 'é'];
    cfg.size = 18;
    (gen::node_strategy(&cfg), gen::flags_strategy("smi"))
        .prop_map(|(node, flags)| {
            let node = resolve(&node);
            let mut f = vec![];
            features(&node, &mut f);
            f.sort();
            f.dedup();
            Case07::Valid { pattern: render(&node, Dialect::XPath), flags, why: f.join(";") }
        })
        .boxed()
}

/// many groups followed by two-digit references
fn valid_backref10() -> BoxedStrategy<Case07> {
    // up to 45 groups: references above 9, above 31/32 and above 40 all occur, always to a closed group
    (10u32..=45, 1u32..=45, any::<bool>()).prop_map(|(n, r, high)| {
        let r = if high { n - (r % 3).min(n - 1) } else { r.min(n) };
        let mut p = String::new();
        for i in 0..n {
            p.push_str(&format!("({})", (b'a' + (i % 20) as u8) as char));
        }
        p.push_str(&format!("\\{r}"));
        Case07::Valid { pattern: p, flags: String::new(), why: (if r >= 10 { "back-reference-2-digits" } else { "back-reference" }).to_string() }
    })
    .boxed()
}

fn valid_fixed() -> Vec<Case07> {
    let mut v = vec![];
    let mut xs = vec![];
    let mut add = |p: &str, why: &str| v.push(Case07::Valid { pattern: p.to_string(), flags: String::new(), why: why.to_string() });
    for p in ["()", "(?:)", "a()b", "(|)", "(?:|a)", "||", "|", "", "a|", "|a", "(a|)"] {
        add(p, "empty-group;empty-branch");
    }
    for p in ["[-a]", "[a-]", "[-]", "[^-a]", "[a-c-]", "[\\d-]", "[-a-c]", "[a-c-[b]]", "[a-[b]]", "[^a-[^b]]", "[a-z-[aeiou]]", "[a-c-[b-[b]]]", "[+-]"] {
        add(p, "hyphen-at-class-edge;class-subtraction");
    }
    for p in ["^*", "$*", "^+", "$?", "^{2}", "^{0,3}", "a^*b", "(^)*", "^*?", "$+?", "^??", "^{2,}?", "^{0}?"] {
        add(p, "quantified-anchor;quantified-anchor-reluctant");
    }
    for p in ["a{0}", "a{0,0}", "a{1,1}", "a{0,}", "a{007}", "a{2,2}?", "a{0}?", ".{3}", "\\.{3}", "(a){2}{", "a{2}"] {
        if p != "(a){2}{" {
            add(p, "quantifier-{n};quantifier-{n,m}");
        }
    }
    for e in ["\\n", "\\r", "\\t", "\\\\", "\\|", "\\.", "\\-", "\\^", "\\?", "\\*", "\\+", "\\{", "\\}", "\\(", "\\)", "\\[", "\\]", "\\$"] {
        add(e, "single-char-escape");
        add(&format!("[{e}]"), "single-char-escape;class-escape-item");
        add(&format!("a{e}+b"), "single-char-escape");
    }
    for p in ["[a b]", "( ?: a )", "a { 2 , 3 }", "\\ p{ L u }", "a * ?", "[a-z -[aeiou]] +", "( a ) \\ 1", "^ a $", "[ ]", "\\ [ a \\ ]"] {
        xs.push(Case07::Valid { pattern: p.to_string(), flags: "x".to_string(), why: "flag-x-whitespace".to_string() });
    }
    for e in ["\\s", "\\S", "\\i", "\\I", "\\c", "\\C", "\\d", "\\D", "\\w", "\\W"] {
        add(e, "multi-char-escape");
        add(&format!("[{e}a]"), "multi-char-escape;class-escape-item");
        add(&format!("[^{e}]"), "multi-char-escape;class-escape-item");
    }
    for n in ucd::TWO_LETTER.iter().chain(ucd::ONE_LETTER.iter()) {
        add(&format!("\\p{{{n}}}"), "every-category-name;category-escape");
        add(&format!("[\\P{{{n}}}x]"), "every-category-name;category-escape");
    }
    for n in &ucd::blocks().names {
        add(&format!("\\p{{Is{n}}}"), "every-block-name;block-escape");
        add(&format!("\\P{{Is{n}}}+"), "every-block-name;block-escape");
    }
    v.extend(xs);
    v
}

const ATOMS: &[&str] = &["a", "\\.", ".", "[ab]", "(a)", "(?:ab)", "\\d", "\\p{Lu}", "^", "$"];
const QUANTS: &[&str] = &["?", "*", "+", "{2}", "{1,2}", "{2,}", "??", "*?", "+?", "{2}?", "{1,2}?", "{2,}?"];

fn invalid_fixed() -> Vec<Case07> {
    let mut v = vec![];
    let mut xs = vec![];
    let mut add = |p: String, why: &str| v.push(Case07::Invalid { pattern: p, flags: String::new(), why: why.to_string() });
    // quantifier applied to a quantifier: piece ::= atom quantifier?  (a following '?' only makes the first one reluctant)
    for a in ATOMS {
        for q1 in QUANTS {
            for q2 in ["*", "+", "{2}", "{1,2}", "?"] {
                if q2 == "?" && !q1.ends_with('?') {
                    continue; // that is the reluctant marker
                }
                if q2 == "?" && (*q1 == "?" ) {
                    continue;
                }
                add(format!("{a}{q1}{q2}"), "a quantifier needs an atom: piece ::= atom quantifier?");
            }
        }
    }
    // malformed quantity
    for a in ATOMS {
        for q in ["{", "{}", "{,2}", "{2", "{2,", "{2,3", "{a}", "{2,a}", "{-1}", "{3,2}", "{1,0}", "{ 2}", "{2 }", "{2,,3}", "{2;3}"] {
            add(format!("{a}{q}"), "quantity ::= QuantExact | QuantRange | QuantMin with n <= m, decimal digits only");
            add(format!("{a}{q}b"), "quantity ::= QuantExact | QuantRange | QuantMin with n <= m, decimal digits only");
        }
    }
    // reversed bounds at every magnitude (compared as decimal numbers of any length: around the widths of machine
    // integers a parser that wraps or saturates loses the order)
    let mags: Vec<String> = {
        let mut m: Vec<u128> = vec![0, 1, 2, 9, 10, 11, 99, 100, 255, 256, 257, 32767, 32768, 65535, 65536, 65537];
        for b in [31u32, 32, 63, 64] {
            let x = 1u128 << b;
            m.extend([x - 2, x - 1, x, x + 1]);
        }
        m.extend([9_999_999_999_999_999_999u128, 10_000_000_000_000_000_000, 99_999_999_999_999_999_999, 100_000_000_000_000_000_000, (1u128 << 64) * 10, u128::MAX]);
        m.sort();
        m.dedup();
        let mut v: Vec<String> = m.iter().map(|x| x.to_string()).collect();
        v.push(format!("{}7", u128::MAX));
        v
    };
    for (i, lo) in mags.iter().enumerate() {
        for (k, hi) in mags.iter().enumerate().skip(i + 1) {
            // hi > lo numerically: {hi,lo} is a reversed range
            let pad = if (i + k) % 3 == 0 { "00" } else { "" };
            add(format!("a{{{pad}{hi},{lo}}}"), "quantity ::= QuantRange with n <= m (reversed bounds, any magnitude)");
            if (i + k) % 5 == 0 {
                add(format!("(?:ab){{{hi},{pad}{lo}}}?c"), "quantity ::= QuantRange with n <= m (reversed bounds, any magnitude)");
            }
        }
    }
    // escapes
    for c in "abefghjklmoquvxyzABEFGHJKLMNOQRTUVXYZ0_ ,:;#&'\"!%/=<>@~`".chars() {
        add(format!("\\{c}"), "not a SingleCharEsc, MultiCharEsc, catEsc or back-reference");
        add(format!("a\\{c}b"), "not a SingleCharEsc, MultiCharEsc, catEsc or back-reference");
        add(format!("[\\{c}]"), "not a SingleCharEsc, MultiCharEsc or catEsc");
    }
    for p in ["\\", "a\\", "[a\\", "(a)\\", "\\p", "\\p{", "\\p{L", "\\pL", "\\p{}", "\\p{Cs}", "\\P{Cs}", "\\p{Xx}", "\\p{IsNope}", "\\p{L}}", "\\p{Is}", "[\\p{Foo}]", "\\p{l}", "\\p{LU}", "\\p{Is BasicLatin}"] {
        add(p.to_string(), "dangling escape or unknown category / block name");
    }
    // unbalanced or misplaced brackets
    for p in [
        "(", ")", "a(", "a)", "(a", "a)b", "((a)", "(a))", "(?:a", "(?:", "(?", "a|(b", "[", "]", "a]", "[a", "[a-", "[]", "[^]", "a[]", "[^", "[a[b]]", "[[a]]", "[a-[b]", "[a-[b]c]", "[a-[b] ]", "[a-z-[aeiou]\t]+", "[-[a]]", "[^-[a]]", "}", "a}", "a{2}}",
        "{", "{2}", "{2}a",
    ] {
        add(p.to_string(), "unbalanced or misplaced ( ) [ ] { }");
    }
    // quantifier without operand
    for q in ["*", "+", "?", "{2}", "{1,2}"] {
        add(format!("{q}"), "quantifier without operand");
        add(format!("{q}a"), "quantifier without operand");
        add(format!("a|{q}b"), "quantifier without operand at the start of a branch");
        add(format!("a({q}b)"), "quantifier without operand at the start of a group");
        add(format!("(?:{q})"), "quantifier without operand at the start of a group");
        add(format!("a(|{q})"), "quantifier without operand at the start of a branch");
    }
    // group syntax other than (?: is not part of the grammar
    for p in ["(?=a)", "(?!a)", "(?<=a)b", "(?i)a", "(?<n>a)", "(?#c)", "(?P<n>a)", "(?>a)", "(?i:a)", "(?-i)a", "(?|a)"] {
        add(p.to_string(), "(? must be followed by ':' ; '?' after '(' is a quantifier without operand");
    }
    // character ranges
    for p in ["[b-a]", "[z-a]", "[a-c-e]", "[\\d-z]", "[a-\\d]", "[9-0]", "[a--]", "[--]x[b-a]", "[\u{10428}-\u{10400}]"] {
        if p != "[a-c-e]" && p != "[\\d-z]" {
            add(p.to_string(), "reversed range or multi-character escape as a range end point");
        }
    }
    // flag x: the grammar applies to the pattern with whitespace outside class expressions removed; whitespace inside a
    // class expression stays, so nothing may stand between the ] of a subtraction and the ] of its group
    for p in ["[a-[b] ]", "[a-z-[aeiou]\t]+", "x[\\p{L}-[\\p{Lu}]\n]y", "a * *", "a { 3 , 2 }", "( ? = a )", "\\ q", "a | * b", "( a", "\\p{ C s }"] {
        xs.push(Case07::Invalid { pattern: p.to_string(), flags: "x".to_string(), why: "invalid after removing whitespace outside classes (whitespace inside a class is kept)".to_string() });
    }
    // back-references
    for p in ["\\1", "a\\1", "(a)\\2", "(a\\1)", "(a)(b\\2)", "((a)\\1)", "(a)[\\1]", "\\0", "(a)\\0", "(a)|\\2", "(?:a)\\1", "(a)\\1\\2", "(a)(b)(c)(d)(e)(f)(g)(h)(i)(j\\10)", "\\10"] {
        add(p.to_string(), "back-reference to a group that does not exist, is not yet closed, or inside a class; \\0");
    }
    v.extend(xs);
    v
}

fn invalid_embedded() -> BoxedStrategy<Case07> {
    // a local error stays an error in any context: (?:X)F(?:Y) with X, Y valid
    let mut cfg = GenCfg::basic(&['a', 'b', '1']);
    cfg.size = 8;
    cfg.depth = 3;
    cfg.w_backref = 0;
    cfg.cap = false;
    let sub = gen::node_strategy(&cfg).prop_map(|n| render(&resolve(&n), Dialect::XPath));
    let frag = prop::sample::select(vec![
        ("\\q", "unknown escape"),
        ("\\e", "unknown escape"),
        ("a{3,2}", "QuantRange with n > m"),
        ("a{,2}", "malformed quantity"),
        ("a{x}", "malformed quantity"),
        ("a**", "quantifier applied to a quantifier"),
        ("a+*", "quantifier applied to a quantifier"),
        ("a{2}{3}", "quantifier applied to a quantifier"),
        ("a?+", "quantifier applied to a quantifier"),
        ("a*??", "quantifier applied to a quantifier"),
        ("[b-a]", "reversed range"),
        ("[]", "empty character group"),
        ("[^]", "empty negative character group"),
        ("\\p{Cs}", "Cs is not a category of the grammar"),
        ("\\p{IsNoSuchBlock}", "unknown block"),
        ("\\p{Lx}", "unknown category"),
        ("\\0", "octal escapes / \\0 are not part of the grammar"),
        ("\\9", "back-reference to a group that does not exist"),
        ("[a[b]", "unescaped [ inside a character group"),
        ("(?=a)", "(? must be followed by ':'"),
        ("}", "unescaped }"),
        ("]", "unescaped ]"),
        ("[\\1]", "back-reference inside a character class"),
    ]);
    (sub.clone(), frag, sub, gen::flags_strategy("smi"))
        .prop_map(|(x, (f, why), y, flags)| Case07::Invalid { pattern: format!("(?:{x}){f}(?:{y})"), flags, why: format!("{why}; embedded between two valid groups") })
        .boxed()
}

/// a skeleton of nested capturing and non-capturing groups with one back-reference somewhere in it; whether the
/// reference is legal is decided by a model that only tracks which groups have been closed at that point
fn backref_position() -> BoxedStrategy<Case07> {
    (prop::collection::vec(0u8..8, 1..16), any::<u16>(), any::<u16>(), 0usize..10, prop::bool::weighted(0.3)).prop_map(|(ops, at1, at2, n, quantify)| {
        // later positions and low group numbers more often, or nearly every reference is to a group that is not there
        let at = (at1.max(at2) as usize * (ops.len() + 1)) >> 16;
        let n: u32 = [1, 1, 1, 1, 2, 2, 2, 3, 4, 5][n];
        let mut p = String::new();
        // stack of open groups: Some(nr) capturing, None non-capturing
        let mut open: Vec<Option<u32>> = vec![];
        let mut opened = 0u32;
        let mut closed: Vec<u32> = vec![];
        let mut verdict: Option<(bool, String)> = None;
        let mut last_was_atom = false;
        for (i, op) in ops.iter().enumerate() {
            if i == at {
                let ok = closed.contains(&n);
                let why = if ok {
                    format!("group {n} is closed before the reference")
                } else if n <= opened {
                    format!("group {n} is still open at the reference (open groups {:?}, {} non-capturing groups closed before)", open.iter().flatten().collect::<Vec<_>>(), p.matches("(?:").count())
                } else {
                    format!("group {n} does not exist yet at the reference ({opened} opened so far)")
                };
                verdict = Some((ok, why));
                p.push_str(&format!("\\{n}"));
                last_was_atom = true;
            }
            match op {
                0 | 1 => {
                    opened += 1;
                    open.push(Some(opened));
                    p.push('(');
                    last_was_atom = false;
                }
                2 => {
                    open.push(None);
                    p.push_str("(?:");
                    last_was_atom = false;
                }
                3 | 4 => {
                    if let Some(g) = open.pop() {
                        if let Some(nr) = g {
                            closed.push(nr);
                        }
                        p.push(')');
                        last_was_atom = true;
                    } else {
                        p.push('b');
                        last_was_atom = true;
                    }
                }
                5 => {
                    p.push('|');
                    last_was_atom = false;
                }
                6 if quantify && last_was_atom => {
                    p.push('*');
                    last_was_atom = false;
                }
                _ => {
                    p.push('a');
                    last_was_atom = true;
                }
            }
        }
        if verdict.is_none() {
            let ok = closed.contains(&n);
            verdict = Some((ok, if ok { format!("group {n} is closed before the reference") } else { format!("group {n} is not closed at the reference") }));
            p.push_str(&format!("\\{n}"));
        }
        while let Some(_) = open.pop() {
            p.push(')');
        }
        // a letter after the reference keeps it a one-digit reference
        let p = p.replace(&format!("\\{n}"), &format!("\\{n}z")).replace("\\\\", "\\");
        let (ok, why) = verdict.unwrap();
        if ok {
            Case07::Valid { pattern: p, flags: String::new(), why: "back-reference;capturing-group".to_string() }
        } else {
            Case07::Invalid { pattern: p, flags: String::new(), why: format!("back-reference position: {why}") }
        }
    })
    .boxed()
}

/// whole-pattern mutations of a valid pattern that unbalance it
fn invalid_unbalanced() -> BoxedStrategy<Case07> {
    let mut cfg = GenCfg::basic(&['a', 'b', '1']);
    cfg.size = 10;
    let sub = gen::node_strategy(&cfg).prop_map(|n| render(&resolve(&n), Dialect::XPath));
    (sub, 0u8..8, gen::flags_strategy("smi"))
        .prop_map(|(p, k, flags)| {
            let (pattern, why) = match k {
                0 => (format!("{p}("), "one more ( than )"),
                1 => (format!("{p})"), "one more ) than ("),
                2 => (format!("){p}"), "a ) before any ("),
                3 => (format!("({p}"), "one more ( than )"),
                4 => (format!("{p}["), "unterminated character group"),
                5 => (format!("{p}\\"), "escape terminates the pattern"),
                6 => (format!("(?:{p}"), "one more ( than )"),
                _ => (format!("{p}[a"), "unterminated character group"),
            };
            Case07::Invalid { pattern, flags, why: why.to_string() }
        })
        .boxed()
}

fn check(case: &Case07, ctx: &mut Ctx) -> Verdict {
    let (pattern, flags) = match case {
        Case07::Valid { pattern, flags, .. } | Case07::Invalid { pattern, flags, .. } => (pattern.clone(), flags.clone()),
        Case07::Flags(f) => ("a".to_string(), f.clone()),
    };
    let mut job = Job::new(Dialect::XPath, &pattern, &flags);
    job.apis = 0;
    let out = match ctx.w.run(&job) {
        JobResult::Done(o) => o,
        JobResult::Hang => return Verdict::Skip("hang"),
        JobResult::Died(_) => return Verdict::Skip("died"),
    };
    if out.compile.is_panic() {
        return Verdict::Skip("panic");
    }
    ctx.obs.eval(1);
    let got = match &out.compile {
        Res::Ok(_) => "accepted".to_string(),
        Res::Err(k) => format!("{k:?}"),
        Res::Panic(_) => unreachable!(),
    };
    match case {
        Case07::Valid { why, .. } => {
            ctx.obs.label("must-accept");
            if why == "back-reference;capturing-group" {
                ctx.obs.label("backref-position:legal");
            }
            for p in why.split(';') {
                ctx.obs.label(&format!("production:{p}"));
            }
            if why.matches(';').count() >= 1 {
                ctx.obs.nontrivial(&(&pattern, &flags));
            }
            if got != "accepted" {
                return Verdict::Fail(Failure { sub: "valid-rejected".into(), expected: "accepted (grammar-valid)".into(), actual: got, detail: format!("pattern={pattern:?} flags={flags:?} productions={why}") });
            }
        }
        Case07::Invalid { why, .. } => {
            ctx.obs.label("must-reject");
            if why.starts_with("back-reference position: group") {
                ctx.obs.label(if why.contains("still open") { "backref-position:group-still-open" } else { "backref-position:group-not-there" });
            }
            ctx.obs.nontrivial(&(&pattern, &flags));
            if got != "Syntax" {
                return Verdict::Fail(Failure { sub: "invalid-accepted".into(), expected: "Err(Syntax)".into(), actual: got, detail: format!("pattern={pattern:?} flags={flags:?} because: {why}") });
            }
        }
        Case07::Flags(f) => {
            let ok = f.chars().all(|c| "smixq".contains(c));
            ctx.obs.label("flags:any");
            ctx.obs.label(if ok { "flags:valid" } else { "flags:invalid" });
            let want = if ok { "accepted" } else { "InvalidFlags" };
            if got != want {
                return Verdict::Fail(Failure { sub: "flags".into(), expected: want.into(), actual: got, detail: format!("flags={f:?}") });
            }
        }
    }
    ctx.obs.sample(|| json!(case));
    Verdict::Pass
}

impl Prop for C07 {
    type Case = Case07;
    fn id(&self) -> &'static str {
        "C07"
    }
    fn parts(&self, tier: Tier) -> Vec<Part<Case07>> {
        vec![
            Part { name: "valid-ast".into(), strategy: valid_ast(), cases: tier.pick(300_000, 5_000_000) },
            Part { name: "valid-two-digit-backref".into(), strategy: valid_backref10(), cases: tier.pick(2_000, 20_000) },
            Part { name: "invalid-embedded".into(), strategy: invalid_embedded(), cases: tier.pick(100_000, 2_000_000) },
            Part { name: "invalid-unbalanced".into(), strategy: invalid_unbalanced(), cases: tier.pick(100_000, 2_000_000) },
            Part { name: "backref-position".into(), strategy: backref_position(), cases: tier.pick(100_000, 2_000_000) },
        ]
    }
    fn enumerations(&self, _tier: Tier) -> Vec<(String, String, Box<dyn Iterator<Item = Case07> + Send>)> {
        let flags = enumerate::inputs(&['s', 'm', 'i', 'x', 'q', 'a', 'S', '0', ' ', 'é'], 3);
        let nf = flags.len();
        let vf = valid_fixed();
        let inv = invalid_fixed();
        vec![
            ("flag-strings".into(), format!("all {nf} flag strings of length <= 3 over {{s,m,i,x,q,a,S,0,space,é}}"), Box::new(flags.into_iter().map(Case07::Flags))),
            ("valid-curated".into(), format!("{} curated grammar-valid patterns (empty groups and branches, hyphens at class edges, quantified anchors, every escape, every category and block name)", vf.len()), Box::new(vf.into_iter())),
            ("invalid-curated".into(), format!("{} curated patterns that leave the grammar, each with its argument", inv.len()), Box::new(inv.into_iter())),
        ]
    }
    fn check(&self, case: &Case07, ctx: &mut Ctx) -> Verdict {
        check(case, ctx)
    }
    fn describe(&self, case: &Case07) -> Value {
        json!(case)
    }
    fn rule(&self) -> String {
        "evaluation = one Regex::xpath(pattern, flags) call judged accept / Err(Syntax) / Err(InvalidFlags); (a) patterns rendered from ASTs and curated valid patterns covering every production must be accepted, (b) curated mutations that provably leave the grammar (each carries its argument) must be rejected with Syntax, (c) every flag string up to length 3 over a superset alphabet; random mutants without a grammar argument are not judged here (they feed C05); non-trivial = valid pattern exercising >= 2 productions, or any must-reject pattern; distinct = distinct (pattern, flags)".into()
    }
    fn guards(&self) -> Vec<Guard> {
        let mut g: Vec<Guard> = PRODUCTIONS.iter().map(|p| Guard { label: format!("production:{p}"), of: "".into(), min_fraction: 1e-9 }).collect();
        g.push(Guard { label: "must-reject".into(), of: "".into(), min_fraction: 0.2 });
        g.push(Guard { label: "flags:valid".into(), of: "flags:any".into(), min_fraction: 0.1 });
        for l in ["backref-position:legal", "backref-position:group-still-open", "backref-position:group-not-there"] {
            g.push(Guard { label: l.into(), of: "".into(), min_fraction: 0.01 });
        }
        g
    }
    fn assumptions(&self) -> Vec<String> {
        vec!["the XSD grammar corners on which the specification text is debatable ([a-c-e], [\\d-z] as a hyphen after a range or escape) are not generated".into()]
    }
}
