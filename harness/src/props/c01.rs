//! C01 — is_match decides membership of some substring in the regex's language (oracle: R1).
use super::common::*;
use crate::ast::*;
use crate::driver::*;
use crate::enumerate::{self, EnumCfg};
use crate::gen::{self, GenCfg};
use crate::oracle_lang::{self, Tri};
use crate::proto::*;
use proptest::prelude::*;
use serde_json::Value;

pub struct C01;

/// "macro atoms": alternations whose branches differ in length or are zero-width, so that a quantifier over them
/// compiles to the general (backtracking, memoising) Repeat; sizes count the macro as one node, which brings
/// nested counted loops over such repeats (`(?:a(?:a|bb)*){3}`) into an exhaustive scope
pub fn macro_cfg() -> EnumCfg {
    let alt = |v: Vec<Node>| Node::ncap(Node::Alt(v));
    EnumCfg {
        atoms: vec![
            Node::Lit('a'),
            Node::Lit('b'),
            alt(vec![Node::Lit('a'), Node::Cat(vec![Node::Lit('b'), Node::Lit('b')])]),
            alt(vec![Node::Lit('a'), Node::Bol]),
            alt(vec![Node::Lit('a'), Node::Empty]),
            alt(vec![Node::Cat(vec![Node::Lit('a'), Node::Lit('b')]), Node::Lit('a')]),
        ],
        quants: vec![(0, Some(1), true), (0, None, true), (1, None, true), (2, Some(2), true), (3, Some(3), true), (2, Some(3), true), (0, None, false), (1, None, false), (2, Some(3), false)],
        cap: false,
        noncap: false,
        alt: true,
        backref: false,
    }
}

pub fn macro_enumeration(tier: Tier) -> (String, String, Box<dyn Iterator<Item = AstCase> + Send>) {
    let size = tier.pick(5, 6);
    let len = tier.pick(5, 6);
    let nodes = enumerate::up_to(&macro_cfg(), size);
    let inputs = enumerate::inputs(&['a', 'b'], len);
    let scope = format!(
        "all {} ASTs of size <= {} over atoms {{a, b, (?:a|bb), (?:a|^), (?:a|), (?:ab|a)}} (each counted as one node) x quantifiers {{?,*,+,{{2}},{{3}},{{2,3}},*?,+?,{{2,3}}?}} with concatenation and alternation x all {} inputs over {{a,b}} of length <= {}",
        nodes.len(),
        size,
        inputs.len(),
        len
    );
    let it = nodes.into_iter().map(move |node| AstCase { node, flags: String::new(), inputs: Inputs::Lit(inputs.clone()) });
    ("exhaustive-nested-quantifiers".into(), scope, Box::new(it))
}

pub fn enum_cfg() -> EnumCfg {
    EnumCfg {
        atoms: vec![
            Node::Lit('a'),
            Node::Lit('b'),
            Node::Dot,
            Node::Class(ClassExpr { neg: false, items: vec![Item::Char('a'), Item::Char('b')], sub: None }),
            Node::Class(ClassExpr { neg: true, items: vec![Item::Char('a')], sub: None }),
            Node::Bol,
            Node::Eol,
        ],
        quants: vec![
            (0, Some(1), true),
            (0, None, true),
            (1, None, true),
            (2, Some(2), true),
            (1, Some(2), true),
            (2, None, true),
            (0, Some(1), false),
            (0, None, false),
            (1, None, false),
            (1, Some(2), false),
        ],
        cap: true,
        noncap: false,
        alt: true,
        backref: true,
    }
}

pub fn check_is_match(prop: &str, case: &AstCase, ctx: &mut Ctx) -> Verdict {
    let m = case.materialize(Dialect::XPath, &[]);
    let mut job = Job::new(Dialect::XPath, &m.pattern, &case.flags);
    job.inputs = m.inputs.clone();
    job.apis = API_IS_MATCH;
    let res = ctx.w.run(&job);
    let out = match &res {
        JobResult::Done(o) => o,
        JobResult::Hang => return Verdict::Skip("hang"),
        JobResult::Died(_) => return Verdict::Skip("died"),
    };
    let facts = match &out.compile {
        Res::Ok(f) => f,
        Res::Err(_) => return Verdict::Skip("compile_err"),
        Res::Panic(_) => return Verdict::Skip("panic"),
    };
    let nontrivial_shape = m.node.size() >= 3 && (m.node.has_rep() || m.node.has_anchor() || m.node.has_backref() || m.node.any(&|n| matches!(n, Node::Alt(_))));
    let fl = facts_labels(facts);
    ctx.obs.label(match m.node.size() {
        0..=2 => "size:1-2",
        3..=5 => "size:3-5",
        6..=10 => "size:6-10",
        _ => "size:11+",
    });
    let mut known_hit: Option<String> = None;
    for (i, input) in m.inputs.iter().enumerate() {
        let io = &out.per_input[i];
        let engine = match io.is_match.as_ref().unwrap() {
            Res::Ok(b) => *b,
            _ => {
                *ctx.obs.skipped.entry("panic".into()).or_insert(0) += 1;
                continue;
            }
        };
        let s = chars(input);
        let oracle = oracle_lang::is_match(&m.node, &s, m.flags);
        ctx.obs.eval(1);
        let ob = match oracle {
            Tri::True => true,
            Tri::False => false,
            Tri::Either => {
                ctx.obs.label("oracle=either(capture reading)");
                continue;
            }
            Tri::Unknown => {
                ctx.obs.label("oracle=budget");
                continue;
            }
        };
        ctx.obs.label(if ob { "oracle=true" } else { "oracle=false" });
        for l in &fl {
            ctx.obs.label(l);
        }
        if m.node.has_backref() {
            ctx.obs.label("has_backref");
        }
        if nontrivial_shape && !s.is_empty() {
            ctx.obs.nontrivial(&(&m.pattern, &case.flags, input));
        }
        if engine != ob {
            let symptom = if ob { "engine=false,oracle=true" } else { "engine=true,oracle=false" };
            let mut regions = vec![];
            if io.cutoffs[0] > 0 || out.compile_cutoffs > 0 {
                regions.push("force_progress_cutoff");
            }
            if m.node.backref_to_group_in_fixed_loop() {
                regions.push("backref_to_group_in_fixed_length_loop");
            }
            if let Some(id) = ctx.known.attribute(prop, &regions, symptom) {
                known_hit = Some(id);
                continue;
            }
            return Verdict::Fail(Failure {
                sub: "is_match-vs-language".into(),
                expected: format!("is_match={ob}"),
                actual: format!("is_match={engine}"),
                detail: format!("pattern={:?} flags={:?} input={:?} cutoffs={}", m.pattern, case.flags, input, io.cutoffs[0]),
            });
        }
    }
    ctx.obs.sample(|| case.describe(Dialect::XPath, &[]));
    if let Some(id) = known_hit {
        return Verdict::Known(id);
    }
    Verdict::Pass
}

/// thorough tier: coverage-guided search over pattern ASTs with the reference model inside the libFuzzer target
/// (`lang`: R1 for C01/C16; `spans`: R2 for C02/C03);
/// every artifact is decoded by the same function the target uses and re-judged by `judge` through a worker
pub fn lang_campaign(name: &'static str, target: &'static str, ctx: &mut Ctx, judge: &dyn Fn(&AstCase, &mut Ctx) -> Verdict) -> Vec<(String, Verdict, Option<AstCase>)> {
    if ctx.tier != Tier::Thorough {
        return vec![];
    }
    let seed = std::env::var("VERIF_SEED").ok().and_then(|s| s.parse().ok()).unwrap_or(0u64);
    let c = crate::fuzzrun::Campaign { name, target, hooks: true, runs_per_job: 300_000, jobs: 12, timeout_s: 25, seed: seed + 101 + name.bytes().map(|b| b as u64).sum::<u64>() };
    match crate::fuzzrun::run_raw(&c, &[], 64) {
        Err(e) => {
            eprintln!("harness error: fuzz campaign: {e}");
            std::process::exit(2)
        }
        Ok((found, execs)) => {
            ctx.obs.label(&format!("libfuzzer:executions={execs}"));
            ctx.obs.label(&format!("libfuzzer:artifacts={}", found.len()));
            ctx.obs.eval(execs);
            for (kind, bytes) in found {
                let Some(t) = crate::fuzz_ast::decode(&bytes) else { continue };
                let case = AstCase { node: t.node, flags: t.flags, inputs: Inputs::Lit(t.inputs) };
                match judge(&case, ctx) {
                    Verdict::Fail(fl) => {
                        return vec![(format!("libfuzzer-{kind}"), Verdict::Fail(Failure { detail: format!("{} (candidate found by libFuzzer, re-judged through the worker)", fl.detail), ..fl }), Some(case))];
                    }
                    Verdict::Known(_) => ctx.obs.label("libfuzzer:artifact-is-known-finding"),
                    _ => {
                        println!("note: libFuzzer artifact ({kind}) did not fail when re-judged through the worker: {}", case.describe(Dialect::XPath, &[]));
                        ctx.obs.label(&format!("libfuzzer:artifact-not-confirmed:{kind}"));
                    }
                }
            }
            vec![]
        }
    }
}

/// large quantities (bounds, literal length, alternatives, groups, nesting between 5 and 40) with long matching inputs
pub fn scaled_part(cfg: &GenCfg, flag_letters: &'static str) -> BoxedStrategy<AstCase> {
    gen::scaled_strategy(cfg, flag_letters).prop_map(|(node, flags, inputs)| AstCase { node, flags, inputs: Inputs::Lit(inputs) }).boxed()
}

impl Prop for C01 {
    type Case = AstCase;
    fn id(&self) -> &'static str {
        "C01"
    }
    fn parts(&self, tier: Tier) -> Vec<Part<AstCase>> {
        let cfg = GenCfg::basic(&['a', 'b', 'c']);
        let s = (gen::node_strategy(&cfg), gen::flags_strategy("ims"), gen::raw_inputs(12, 8))
            .prop_map(|(node, flags, inputs)| AstCase { node, flags, inputs: Inputs::Raw(inputs) })
            .boxed();
        let mut cfg2 = GenCfg::basic(&['a', 'b', 'A', '\n', '1', 'x', 'é']);
        cfg2.w_backref = 4;
        cfg2.w_anchor = 4;
        let s2 = (gen::node_strategy(&cfg2), gen::flags_strategy("ims"), gen::raw_inputs(12, 6))
            .prop_map(|(node, flags, inputs)| AstCase { node, flags, inputs: Inputs::Raw(inputs) })
            .boxed();
        // the shapes that trigger the compile-time shortcuts (C08's generator), judged here against the language
        let s3 = (super::c08::trigger_strategy(), gen::flags_strategy("ims"), gen::raw_inputs(10, 8))
            .prop_map(|(node, flags, inputs)| AstCase { node, flags, inputs: Inputs::Raw(inputs) })
            .boxed();
        vec![
            Part { name: "random-abc".into(), strategy: s, cases: tier.pick(300_000, 6_000_000) },
            Part { name: "random-anchors-backrefs".into(), strategy: s2, cases: tier.pick(200_000, 4_000_000) },
            Part { name: "shortcut-shapes".into(), strategy: s3, cases: tier.pick(150_000, 3_000_000) },
            Part { name: "scaled".into(), strategy: scaled_part(&cfg2, "ims"), cases: tier.pick(40_000, 600_000) },
        ]
    }
    fn enumerations(&self, tier: Tier) -> Vec<(String, String, Box<dyn Iterator<Item = AstCase> + Send>)> {
        let size = tier.pick(4, 5);
        let len = tier.pick(3, 4);
        let nodes = enumerate::up_to(&enum_cfg(), size);
        let inputs = enumerate::inputs(&['a', 'b', '\n'], len);
        let n = nodes.len();
        let flagsets: Vec<String> = vec!["", "i", "m", "s", "im", "is", "ms", "ims"].into_iter().map(String::from).collect();
        let scope = format!("all {} ASTs of size <= {} over atoms {{a,b,.,[ab],[^a],^,$,\\N}} x quantifiers {{?,*,+,{{2}},{{1,2}},{{2,}},??,*?,+?,{{1,2}}?}} x all {} inputs over {{a,b,LF}} of length <= {} x all 8 subsets of {{i,m,s}}", n, size, inputs.len(), len);
        let it = nodes.into_iter().flat_map(move |node| {
            let inputs = inputs.clone();
            flagsets.clone().into_iter().map(move |f| AstCase { node: node.clone(), flags: f, inputs: Inputs::Lit(inputs.clone()) })
        });
        vec![("exhaustive-small".into(), scope, Box::new(it)), macro_enumeration(tier)]
    }
    fn extra(&self, ctx: &mut Ctx) -> Vec<(String, Verdict, Option<AstCase>)> {
        lang_campaign("C01", "lang", ctx, &|case, ctx| check_is_match("C01", case, ctx))
    }
    fn check(&self, case: &AstCase, ctx: &mut Ctx) -> Verdict {
        check_is_match("C01", case, ctx)
    }
    fn describe(&self, case: &AstCase) -> Value {
        case.describe(Dialect::XPath, &[])
    }
    fn rule(&self) -> String {
        "evaluation = one is_match(pattern, flags, input) compared with the R1 language model; non-trivial = the pattern has >= 3 AST nodes including a quantifier, alternation, anchor or back-reference and the input is non-empty; distinct = distinct (pattern, flags, input) triples".into()
    }
    fn guards(&self) -> Vec<Guard> {
        vec![
            Guard { label: "oracle=true".into(), of: "".into(), min_fraction: 0.0 },
        ]
    }
    fn assumptions(&self) -> Vec<String> {
        vec!["the R1 language model (harness/src/oracle_lang.rs) is a correct reading of XSD 1.1 / XPath 3.1 regex semantics".into(), "patterns where the two capture readings (keep/reset across iterations) of R1 disagree are not judged".into()]
    }
}
