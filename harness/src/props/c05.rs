//! C05 — no API call panics: every outcome is Ok or a classified Err.
use super::common::*;
use crate::ast::*;
use crate::driver::*;
use crate::gen::{self, GenCfg};
use crate::proto::*;
use proptest::prelude::*;
use serde_json::Value;

pub struct C05;

pub const META: &[char] = &[
    '(', ')', '[', ']', '{', '}', '\\', '?', '*', '+', '|', '.', '^', '$', '-', ',', ':', 'a', 'b', 'c', 'p', 'P', 'd', 'D', 'w', 'W', 's',
    'S', 'i', 'I', 'C', 'n', 'r', 't', 'L', 'u', 'I', 's', '0', '1', '2', '9', 'é', '𐐀', '\n', ' ', 'q', 'x',
];
pub const FLAGCH: &[char] = &['s', 'm', 'i', 'x', 'q', ';', 'g', 'k', 'K', 'a', ' ', 'S', 'é'];
pub const REPCH: &[char] = &['$', '\\', '0', '1', '2', '3', '9', 'a', 'b', '{', '}', '𐐀'];

pub fn idx_string(alpha: &'static [char], max: usize) -> BoxedStrategy<String> {
    prop::collection::vec(any::<u16>(), 0..=max)
        .prop_map(move |v| v.iter().map(|i| alpha[((*i as usize) * alpha.len()) >> 16]).collect())
        .boxed()
}

fn flags_any() -> BoxedStrategy<String> {
    prop_oneof![
        6 => gen::flags_strategy("smix"),
        2 => gen::flags_strategy("smixq"),
        2 => idx_string(FLAGCH, 4),
    ]
    .boxed()
}

fn dialect_any() -> BoxedStrategy<Dialect> {
    prop_oneof![3 => Just(Dialect::XPath), 1 => Just(Dialect::Xsd)].boxed()
}

/// inputs drawn from the characters of the pattern plus fixed extras
fn inputs_for(pattern: &str, raw: &[Vec<u16>]) -> Vec<String> {
    let mut alpha: Vec<char> = pattern.chars().filter(|c| !"()[]{}\\?*+|^$".contains(*c)).collect();
    alpha.extend(['a', 'b', 'c', '\n', '𐐀', '1', ' ']);
    raw.iter().map(|r| gen::materialize_input(r, &alpha)).collect()
}

pub fn valid_ast_part() -> BoxedStrategy<StrCase> {
    let mut cfg = GenCfg::basic(&['a', 'b', 'c', '1', '\n', 'é', '𐐀', '-', '$']);
    cfg.w_esc = 3;
    cfg.w_class = 4;
    cfg.class.sub_depth = 2;
    cfg.size = 18;
    (gen::node_strategy(&cfg), flags_any(), dialect_any(), gen::raw_inputs(4, 8), prop::collection::vec(idx_string(REPCH, 5), 2..=2))
        .prop_map(|(node, flags, dialect, raw, reps)| {
            let node = resolve(&node);
            let pattern = render(&node, dialect);
            let inputs = inputs_for(&pattern, &raw);
            StrCase { dialect, pattern, flags, inputs, replacements: reps, tag: "valid-ast".into() }
        })
        .boxed()
}

fn mutate(p: &str, muts: &[(u8, u16, u16)], other: &str) -> String {
    let mut v: Vec<char> = p.chars().collect();
    for (op, i, j) in muts {
        if v.is_empty() {
            v.push('(');
            continue;
        }
        let a = ((*i as usize) * v.len()) >> 16;
        match op % 6 {
            0 => {
                v.remove(a);
            }
            1 => {
                let c = v[a];
                v.insert(a, c);
            }
            2 => {
                if a + 1 < v.len() {
                    v.swap(a, a + 1);
                }
            }
            3 => v.truncate(a),
            4 => {
                let m = META[((*j as usize) * 17) >> 16];
                v.insert(a, m);
            }
            _ => {
                let o: Vec<char> = other.chars().collect();
                if !o.is_empty() {
                    let b = ((*j as usize) * o.len()) >> 16;
                    v.truncate(a);
                    v.extend(o[b..].iter());
                }
            }
        }
    }
    v.into_iter().collect()
}

pub fn mutated_part() -> BoxedStrategy<StrCase> {
    (valid_ast_part(), valid_ast_part(), prop::collection::vec((any::<u8>(), any::<u16>(), any::<u16>()), 1..=3))
        .prop_map(|(a, b, muts)| {
            let pattern = mutate(&a.pattern, &muts, &b.pattern);
            StrCase { pattern, tag: "mutated".into(), ..a }
        })
        .boxed()
}

pub fn random_string_part() -> BoxedStrategy<StrCase> {
    (idx_string(META, 14), flags_any(), dialect_any(), gen::raw_inputs(3, 6), prop::collection::vec(idx_string(REPCH, 5), 2..=2))
        .prop_map(|(pattern, flags, dialect, raw, reps)| {
            let inputs = inputs_for(&pattern, &raw);
            StrCase { dialect, pattern, flags, inputs, replacements: reps, tag: "random-string".into() }
        })
        .boxed()
}

const EXTREME: &[&str] = &[
    "0", "1", "2", "3", "2147483647", "2147483648", "4294967295", "4294967296", "4611686018427387904", "9223372036854775807",
    "9223372036854775808", "18446744073709551614", "18446744073709551615", "18446744073709551616", "100000000000000000000", "00000000000000000000002",
];
const BODIES: &[&str] = &[
    "a", "ab", "(?:abcde)", "a?", "(a|bc)", "[ab]", "^", "$", "(?:a{2})", "(a)", ".", "\\d", "(?:a|)", "(?:ab|c){2}", "(?:a{9223372036854775808})", "(?:a{4611686018427387904})",
    "(a{18446744073709551615})", "(?:ab{9223372036854775807})", "(?:b|^)", "(?:$|a)", "((a){4294967296})",
];

pub fn extreme_part() -> BoxedStrategy<StrCase> {
    let piece = (0..BODIES.len(), 0..EXTREME.len(), 0..EXTREME.len(), 0u8..4, any::<bool>()).prop_map(|(b, n, m, form, rel)| {
        let q = match form {
            0 => format!("{{{}}}", EXTREME[n]),
            1 => format!("{{{},}}", EXTREME[n]),
            2 => format!("{{{},{}}}", EXTREME[n], EXTREME[m]),
            _ => format!("{{{},{}}}", EXTREME[n.min(m)], EXTREME[n.max(m)]),
        };
        format!("{}{}{}", BODIES[b], q, if rel { "?" } else { "" })
    });
    (prop::collection::vec(piece, 1..=3), 0u8..6, flags_any(), gen::raw_inputs(3, 10), any::<bool>())
        .prop_map(|(pieces, wrap, flags, raw, xsd)| {
            let inner = pieces.join("");
            let pattern = match wrap {
                0 => inner,
                1 => format!("^{inner}"),
                2 => {
                    let k = (raw[0].len() * 3) % EXTREME.len();
                    let k2 = (raw[1].len() * 5 + 1) % EXTREME.len();
                    match raw[2].len() % 4 {
                        0 => format!("(?:{inner}){{{}}}", EXTREME[k]),
                        1 => format!("(?:{inner}){{0,{}}}", EXTREME[k]),
                        2 => format!("(?:{inner}){{{},}}?", EXTREME[k]),
                        _ => format!("({inner}){{{},{}}}", EXTREME[k.min(k2)], EXTREME[k.max(k2)]),
                    }
                }
                3 => format!("x{inner}y"),
                4 => format!("({inner})\\1"),
                _ => format!("{inner}|b"),
            };
            let inputs = inputs_for(&pattern, &raw);
            StrCase {
                dialect: if xsd { Dialect::Xsd } else { Dialect::XPath },
                pattern,
                flags,
                inputs,
                replacements: vec!["$1".into(), "\\$0".into()],
                tag: "extreme-bounds".into(),
            }
        })
        .boxed()
}

/// '^' + fixed-length prefix + counted repeats, inputs often shorter than the prefix (the D13 shape)
pub fn precondition_part() -> BoxedStrategy<StrCase> {
    let atom = prop::sample::select(vec!["a", "b", "[c]", "[ab]", ".", "(?:[c][c])", "(?:ab)", "(a)", "\\d", "(?:a|b)"]);
    let piece = (atom, 0u8..5, 1u32..5, 0u32..3).prop_map(|(a, f, n, d)| match f {
        0 => a.to_string(),
        1 => format!("{a}{{{n}}}"),
        2 => format!("{a}{{{n},{}}}", n + d),
        3 => format!("{a}+"),
        _ => format!("{a}{{{n},}}"),
    });
    (prop::collection::vec(piece, 1..=5), 0u8..4, gen::flags_strategy("smi"), gen::raw_inputs(5, 9))
        .prop_map(|(pieces, lead, flags, raw)| {
            let body = pieces.join("");
            let pattern = match lead {
                0 | 1 => format!("^{body}"),
                2 => format!("(^{body})"),
                _ => format!("x?^{body}"),
            };
            let alpha = ['a', 'b', 'c', '1', '\n'];
            let inputs = raw.iter().map(|r| gen::materialize_input(r, &alpha)).collect();
            StrCase { dialect: Dialect::XPath, pattern, flags, inputs, replacements: vec!["$1".into()], tag: "precondition-shape".into() }
        })
        .boxed()
}

/// deepest nesting of unescaped parentheses (outside character classes) in a pattern string
pub fn group_depth(p: &str) -> usize {
    let (mut depth, mut max, mut class, mut esc) = (0usize, 0usize, 0usize, false);
    for c in p.chars() {
        if esc {
            esc = false;
            continue;
        }
        match c {
            '\\' => esc = true,
            '[' => class += 1,
            ']' => class = class.saturating_sub(1),
            '(' if class == 0 => {
                depth += 1;
                max = max.max(depth);
            }
            ')' if class == 0 => depth = depth.saturating_sub(1),
            _ => {}
        }
    }
    max
}

/// groups nested 50 to 600 deep, plain, quantified or with an alternative at each level: parser, optimiser, matcher
/// and the destructor all recurse once per level
pub fn deep_nesting_part() -> BoxedStrategy<StrCase> {
    (50usize..=600, 0u8..5, prop::sample::select(vec!["a", "[ab]", "a|b", "\\d", ""]), gen::flags_strategy("smi"))
        .prop_map(|(d, kind, inner, flags)| {
            // (an empty innermost term under nested + would be (length+1)^depth work: finite, but not for this check)
            let inner = if kind == 4 && inner.is_empty() { "a" } else { inner };
            let (open, close) = match kind {
                0 => ("(", ")"),
                1 => ("(?:", ")"),
                2 => ("(", ")?"),
                3 => ("(?:b|", ")"),
                _ => ("(?:", ")+"),
            };
            let pattern = format!("{}{inner}{}", open.repeat(d), close.repeat(d));
            StrCase { dialect: Dialect::XPath, pattern, flags, inputs: vec!["a".into(), "xa1y".into(), String::new()], replacements: vec!["[$1]".into()], tag: "deep-nesting".into() }
        })
        .boxed()
}

pub fn bad_in_outcome(out: &Outcome) -> Option<String> {
    match &out.compile {
        Res::Panic(p) => return Some(format!("compile panicked: {p}")),
        Res::Err(ErrKind::Internal) => return Some("compile returned Error::Internal".into()),
        _ => {}
    }
    for (i, io) in out.per_input.iter().enumerate() {
        if let Some(r) = &io.is_match {
            if r.is_bad() {
                return Some(format!("is_match on input #{i}: {r:?}"));
            }
        }
        for (k, r) in io.replace.iter().enumerate() {
            if r.is_bad() {
                return Some(format!("replace_all on input #{i} replacement #{k}: {r:?}"));
            }
        }
        if let Some(r) = &io.tokens {
            if r.is_bad() {
                return Some(format!("tokenize on input #{i}: {r:?}"));
            }
            if let Res::Ok(it) = r {
                if let Some(p) = &it.panic {
                    return Some(format!("tokenize iterator step on input #{i} panicked: {p}"));
                }
            }
        }
        if let Some(r) = &io.analyze {
            if r.is_bad() {
                return Some(format!("analyze on input #{i}: {r:?}"));
            }
            if let Res::Ok(it) = r {
                if let Some(p) = &it.panic {
                    return Some(format!("analyze iterator step on input #{i} panicked: {p}"));
                }
            }
        }
    }
    None
}

pub fn check_no_panic(case: &StrCase, ctx: &mut Ctx) -> Verdict {
    let mut job = case.job();
    let depth = group_depth(&case.pattern);
    if depth > 40 {
        // the analyze tree nests once per group and the outcome travels as JSON (parser depth limit 128)
        job.apis &= !API_ANALYZE;
        ctx.obs.label("groups-nested>40");
    }
    let res = ctx.w.run(&job);
    let out = match &res {
        JobResult::Done(o) => o,
        JobResult::Hang => return Verdict::Skip("hang"),
        JobResult::Died(st) => {
            let mut regions = vec![];
            if depth >= 2000 {
                regions.push("group_nesting_depth>=2000");
            }
            if let Some(id) = ctx.known.attribute("C05", &regions, "process-abort") {
                return Verdict::Known(id);
            }
            return Verdict::Fail(Failure {
                sub: "no-panic".into(),
                expected: "Ok or classified Err".into(),
                actual: format!("worker process died ({st})"),
                detail: format!("{}", case.describe()),
            })
        }
    };
    let calls = 1 + out.per_input.len() as u64 * (3 + case.replacements.len() as u64);
    ctx.obs.eval(calls);
    ctx.obs.label(&format!("part:{}", case.tag));
    match &out.compile {
        Res::Ok(_) => {
            ctx.obs.label("compile=ok");
            ctx.obs.nontrivial(&(&case.pattern, &case.flags, case.dialect));
        }
        Res::Err(k) => ctx.obs.label(&format!("compile=err:{k:?}")),
        Res::Panic(_) => {}
    }
    if let Some(what) = bad_in_outcome(out) {
        return Verdict::Fail(Failure {
            sub: "no-panic".into(),
            expected: "Ok or Err(InvalidFlags|Syntax|MatchesEmptyString|InvalidReplacementString)".into(),
            actual: what,
            detail: format!("{}", case.describe()),
        });
    }
    ctx.obs.sample(|| case.describe());
    Verdict::Pass
}

impl Prop for C05 {
    type Case = StrCase;
    fn id(&self) -> &'static str {
        "C05"
    }
    fn parts(&self, tier: Tier) -> Vec<Part<StrCase>> {
        vec![
            Part { name: "valid-ast".into(), strategy: valid_ast_part(), cases: tier.pick(150_000, 3_000_000) },
            Part { name: "mutated".into(), strategy: mutated_part(), cases: tier.pick(150_000, 3_000_000) },
            Part { name: "random-string".into(), strategy: random_string_part(), cases: tier.pick(150_000, 3_000_000) },
            Part { name: "extreme-bounds".into(), strategy: extreme_part(), cases: tier.pick(60_000, 1_000_000) },
            Part { name: "precondition-shape".into(), strategy: precondition_part(), cases: tier.pick(60_000, 1_000_000) },
            Part { name: "deep-nesting".into(), strategy: deep_nesting_part(), cases: tier.pick(3_000, 30_000) },
        ]
    }
    fn enumerations(&self, _tier: Tier) -> Vec<(String, String, Box<dyn Iterator<Item = StrCase> + Send>)> {
        // every combination of an inner and an outer extreme quantifier over three small bodies
        let mut v = vec![];
        let ext = EXTREME.len() - 1; // without the zero-padded spelling
        for body in ["a", "(a)", "ab"] {
            for i in 0..ext {
                for iform in 0..3 {
                    let inner = match iform {
                        0 => format!("{body}{{{}}}", EXTREME[i]),
                        1 => format!("{body}{{{},}}", EXTREME[i]),
                        _ => format!("{body}{{0,{}}}", EXTREME[i]),
                    };
                    for n in 0..ext {
                        for (oform, rel) in [(0, ""), (1, ""), (2, ""), (0, "?"), (2, "?")] {
                            let outer = match oform {
                                0 => format!("{{{}}}", EXTREME[n]),
                                1 => format!("{{{},}}", EXTREME[n]),
                                _ => format!("{{0,{}}}", EXTREME[n]),
                            };
                            v.push(StrCase {
                                dialect: Dialect::XPath,
                                pattern: format!("x(?:{inner}){outer}{rel}y"),
                                flags: String::new(),
                                inputs: vec!["xy".into(), "xay".into(), "xaby".into(), "".into()],
                                replacements: vec!["$1".into()],
                                tag: "nested-extreme-bounds".into(),
                            });
                        }
                    }
                }
            }
        }
        let n = v.len();
        vec![("nested-extreme-bounds".into(), format!("{n} patterns x(?:B{{inner}}){{outer}}y: bodies a, (a), ab x 15 extreme values x 3 inner forms x 15 x 5 outer forms, on 4 inputs"), Box::new(v.into_iter()))]
    }
    fn extra(&self, ctx: &mut Ctx) -> Vec<(String, Verdict, Option<StrCase>)> {
        // thorough tier: coverage-guided campaign; every crash / oom artifact is re-judged through the worker path
        if ctx.tier != Tier::Thorough {
            return vec![];
        }
        let seed = std::env::var("VERIF_SEED").ok().and_then(|s| s.parse().ok()).unwrap_or(0u64);
        let seeds: Vec<StrCase> = std::fs::read_dir(verif_dir().join("corpus").join("C05"))
            .map(|rd| rd.filter_map(|e| e.ok()).filter_map(|e| std::fs::read_to_string(e.path()).ok()).filter_map(|t| serde_json::from_str::<Value>(&t).ok()).filter_map(|v| serde_json::from_value(v["case"].clone()).ok()).collect())
            .unwrap_or_default();
        let c = crate::fuzzrun::Campaign { name: "C05", target: "api", hooks: true, runs_per_job: 250_000, jobs: 12, timeout_s: 25, seed };
        match crate::fuzzrun::run(&c, &seeds) {
            Err(e) => {
                eprintln!("harness error: fuzz campaign: {e}");
                std::process::exit(2)
            }
            Ok((found, execs)) => {
                ctx.obs.label(&format!("libfuzzer:executions={execs}"));
                ctx.obs.label(&format!("libfuzzer:artifacts={}", found.len()));
                ctx.obs.eval(execs);
                let mut out = vec![];
                for f in found {
                    if f.kind == "timeout" {
                        continue; // C06's business
                    }
                    let v = check_no_panic(&f.case, ctx);
                    if !matches!(v, Verdict::Fail(_)) {
                        println!("note: libFuzzer artifact ({}) did not fail when re-judged through the worker: {}", f.kind, f.case.describe());
                        ctx.obs.label(&format!("libfuzzer:artifact-not-confirmed:{}", f.kind));
                    }
                    if let Verdict::Fail(fl) = v {
                        out.push((format!("libfuzzer-{}", f.kind), Verdict::Fail(Failure { detail: format!("{} (found by libFuzzer, re-judged through the worker)", fl.detail), ..fl }), Some(f.case.clone())));
                        break;
                    }
                }
                out
            }
        }
    }
    fn check(&self, case: &StrCase, ctx: &mut Ctx) -> Verdict {
        check_no_panic(case, ctx)
    }
    fn describe(&self, case: &StrCase) -> Value {
        case.describe()
    }
    fn rule(&self) -> String {
        "evaluation = one API call (compile, is_match, replace_all per replacement, tokenize and analyze driven to exhaustion); non-trivial = the pattern compiled, so the matching APIs were exercised; distinct = distinct (dialect, pattern, flags)".into()
    }
    fn guards(&self) -> Vec<Guard> {
        vec![Guard { label: "compile=ok".into(), of: "".into(), min_fraction: 0.25 }]
    }
    fn assumptions(&self) -> Vec<String> {
        vec!["harness and regexml are built with debug-assertions and overflow-checks on, so arithmetic overflow panics instead of wrapping".into(), "a job that exceeds the CPU budget is left to C06".into()]
    }
}
