//! Bounded-exhaustive enumeration of pattern ASTs by size, and of inputs by length.
use crate::ast::*;

#[derive(Clone, Debug)]
pub struct EnumCfg {
    pub atoms: Vec<Node>,
    /// (min, max, greedy)
    pub quants: Vec<(u32, Option<u32>, bool)>,
    pub cap: bool,
    pub noncap: bool,
    pub alt: bool,
    /// allow BackRef leaves (raw selector 0 and 40000: first / last closed group)
    pub backref: bool,
}

/// all raw ASTs of exactly `size` nodes; Cat and Alt are binary and right-nested, so each flat sequence appears once
pub fn of_size(cfg: &EnumCfg, size: usize, memo: &mut Vec<Option<Vec<Node>>>) -> Vec<Node> {
    if memo.len() <= size {
        memo.resize(size + 1, None);
    }
    if let Some(v) = &memo[size] {
        return v.clone();
    }
    let mut out = vec![];
    if size == 1 {
        out.extend(cfg.atoms.iter().cloned());
        if cfg.backref {
            out.push(Node::BackRef(0));
        }
    } else if size >= 2 {
        let sub = of_size(cfg, size - 1, memo);
        for b in &sub {
            if cfg.cap {
                out.push(Node::cap(b.clone()));
            }
            if cfg.noncap && !matches!(b, Node::Group(_, _)) {
                out.push(Node::ncap(b.clone()));
            }
            for (min, max, greedy) in &cfg.quants {
                out.push(Node::rep(b.clone(), *min, *max, *greedy));
            }
        }
        if size >= 3 {
            for ls in 1..=(size - 2) {
                let rs = size - 1 - ls;
                let left = of_size(cfg, ls, memo);
                let right = of_size(cfg, rs, memo);
                for l in &left {
                    if matches!(l, Node::Cat(_)) {
                        continue;
                    }
                    for r in &right {
                        // Cat: left not a Cat (right-nested); an Alt operand is parenthesised by the renderer
                        let mut v = vec![l.clone()];
                        match r {
                            Node::Cat(rv) => v.extend(rv.iter().cloned()),
                            _ => v.push(r.clone()),
                        }
                        out.push(Node::Cat(v));
                    }
                }
                if cfg.alt {
                    for l in &left {
                        if matches!(l, Node::Alt(_)) {
                            continue;
                        }
                        for r in &right {
                            let mut v = vec![l.clone()];
                            match r {
                                Node::Alt(rv) => v.extend(rv.iter().cloned()),
                                _ => v.push(r.clone()),
                            }
                            out.push(Node::Alt(v));
                        }
                    }
                }
            }
        }
    }
    memo[size] = Some(out.clone());
    out
}

/// note: with the flattening above a Cat of k leaves has size k+1 only when built right-nested from binary
/// nodes of sizes (1, rest); sizes therefore count binary operators, which is what bounds the enumeration.
pub fn up_to(cfg: &EnumCfg, max_size: usize) -> Vec<Node> {
    let mut memo = vec![];
    let mut all = vec![];
    for s in 1..=max_size {
        all.extend(of_size(cfg, s, &mut memo));
    }
    all
}

/// all strings over `alphabet` of length <= max_len, shortest first
pub fn inputs(alphabet: &[char], max_len: usize) -> Vec<String> {
    let mut out = vec![String::new()];
    let mut prev = vec![String::new()];
    for _ in 0..max_len {
        let mut next = vec![];
        for p in &prev {
            for c in alphabet {
                let mut s = p.clone();
                s.push(*c);
                next.push(s);
            }
        }
        out.extend(next.iter().cloned());
        prev = next;
    }
    out
}
