//! Worker process handles with a CPU-time watchdog.
use crate::proto::*;
use std::io::{Read, Write};
use std::os::unix::io::AsRawFd;
use std::process::{Child, ChildStdin, ChildStdout, Command, Stdio};
use std::time::Instant;

pub struct WorkerHandle {
    child: Child,
    stdin: ChildStdin,
    stdout: ChildStdout,
    pub jobs_run: u64,
    pub max_job_wall_us: u64,
    pub respawns: u64,
    budget_ms: u64,
    pub last_wall_us: u64,
}

enum Attempt {
    Done(Outcome),
    TimedOut,
    Died(String),
}

fn spawn() -> (Child, ChildStdin, ChildStdout) {
    let exe = std::env::current_exe().expect("current_exe");
    let mut child = Command::new(exe)
        .arg("--worker")
        .stdin(Stdio::piped())
        .stdout(Stdio::piped())
        .stderr(Stdio::null())
        .spawn()
        .unwrap_or_else(|e| {
            eprintln!("harness error: cannot start worker: {e}");
            std::process::exit(2)
        });
    let stdin = child.stdin.take().unwrap();
    let stdout = child.stdout.take().unwrap();
    (child, stdin, stdout)
}

/// utime+stime of a process in milliseconds
fn cpu_ms(pid: u32) -> Option<u64> {
    let s = std::fs::read_to_string(format!("/proc/{pid}/stat")).ok()?;
    // the command name may contain spaces; fields after the last ')'
    let rest = &s[s.rfind(')')? + 2..];
    let f: Vec<&str> = rest.split(' ').collect();
    // rest starts at field 3 (state); utime is field 14, stime 15
    let utime: u64 = f.get(11)?.parse().ok()?;
    let stime: u64 = f.get(12)?.parse().ok()?;
    let hz = unsafe { libc::sysconf(libc::_SC_CLK_TCK) } as u64;
    Some((utime + stime) * 1000 / hz.max(1))
}

impl WorkerHandle {
    pub fn new() -> WorkerHandle {
        let (child, stdin, stdout) = spawn();
        let budget_ms = std::env::var("VERIF_CPU_BUDGET_MS")
            .ok()
            .and_then(|s| s.parse().ok())
            .unwrap_or(1500);
        WorkerHandle {
            child,
            stdin,
            stdout,
            jobs_run: 0,
            max_job_wall_us: 0,
            respawns: 0,
            budget_ms,
            last_wall_us: 0,
        }
    }

    fn respawn(&mut self) {
        let _ = self.child.kill();
        let _ = self.child.wait();
        let (child, stdin, stdout) = spawn();
        self.child = child;
        self.stdin = stdin;
        self.stdout = stdout;
        self.respawns += 1;
    }

    fn attempt(&mut self, bytes: &[u8], budget_ms: u64) -> Attempt {
        let pid = self.child.id();
        let start_cpu = cpu_ms(pid).unwrap_or(0);
        let t0 = Instant::now();
        if self
            .stdin
            .write_all(&(bytes.len() as u32).to_le_bytes())
            .and_then(|_| self.stdin.write_all(bytes))
            .and_then(|_| self.stdin.flush())
            .is_err()
        {
            let st = self.child.wait().map(|s| s.to_string()).unwrap_or_default();
            self.respawn();
            return Attempt::Died(format!("write failed; {st}"));
        }
        let fd = self.stdout.as_raw_fd();
        loop {
            let mut pfd = libc::pollfd {
                fd,
                events: libc::POLLIN,
                revents: 0,
            };
            let r = unsafe { libc::poll(&mut pfd, 1, 25) };
            if r > 0 {
                break;
            }
            if r == 0 {
                let used = cpu_ms(pid).unwrap_or(0).saturating_sub(start_cpu);
                if used > budget_ms {
                    self.respawn();
                    return Attempt::TimedOut;
                }
                // a worker that is neither computing nor answering for a long wall time is stuck
                if t0.elapsed().as_secs() > 600 {
                    self.respawn();
                    return Attempt::TimedOut;
                }
            }
        }
        let mut lenb = [0u8; 4];
        if self.stdout.read_exact(&mut lenb).is_err() {
            let st = self.child.wait().map(|s| s.to_string()).unwrap_or_default();
            self.respawn();
            return Attempt::Died(st);
        }
        let len = u32::from_le_bytes(lenb) as usize;
        let mut buf = vec![0u8; len];
        if self.stdout.read_exact(&mut buf).is_err() {
            let st = self.child.wait().map(|s| s.to_string()).unwrap_or_default();
            self.respawn();
            return Attempt::Died(st);
        }
        let us = t0.elapsed().as_micros() as u64;
        if us > self.max_job_wall_us {
            self.max_job_wall_us = us;
        }
        match serde_json::from_slice::<Outcome>(&buf) {
            Ok(o) => Attempt::Done(o),
            Err(e) => {
                eprintln!("harness error: protocol: {e}");
                std::process::exit(2)
            }
        }
    }

    /// one attempt under the given CPU budget; exceeding it is reported as Hang (the worker is replaced)
    pub fn run_budget(&mut self, job: &Job, budget_ms: u64) -> JobResult {
        self.jobs_run += 1;
        let bytes = serde_json::to_vec(job).unwrap();
        let t0 = Instant::now();
        let r = match self.attempt(&bytes, budget_ms) {
            Attempt::Done(o) => JobResult::Done(o),
            Attempt::Died(s) => JobResult::Died(s),
            Attempt::TimedOut => JobResult::Hang,
        };
        self.last_wall_us = t0.elapsed().as_micros() as u64;
        r
    }

    pub fn run(&mut self, job: &Job) -> JobResult {
        self.run_budget(job, self.budget_ms)
    }

    pub fn budget_ms(&self) -> u64 {
        self.budget_ms
    }
}

impl Drop for WorkerHandle {
    fn drop(&mut self) {
        let _ = self.child.kill();
        let _ = self.child.wait();
    }
}
