//! Worker mode: executes jobs against regexml inside catch_unwind.
use crate::proto::*;
use regexml::{AnalyzeEntry, Error, MatchEntry, Regex};
use std::io::{Read, Write};
use std::panic::{catch_unwind, AssertUnwindSafe};

fn kind(e: &Error) -> ErrKind {
    match e {
        Error::Internal => ErrKind::Internal,
        Error::InvalidFlags(_) => ErrKind::InvalidFlags,
        Error::Syntax(_) => ErrKind::Syntax,
        Error::MatchesEmptyString => ErrKind::MatchesEmptyString,
        Error::InvalidReplacementString(_) => ErrKind::InvalidReplacementString,
    }
}

fn panic_msg(p: Box<dyn std::any::Any + Send>) -> String {
    if let Some(s) = p.downcast_ref::<&str>() {
        s.to_string()
    } else if let Some(s) = p.downcast_ref::<String>() {
        s.clone()
    } else {
        "<non-string panic>".to_string()
    }
}

fn guarded<T>(f: impl FnOnce() -> Result<T, Error>) -> Res<T> {
    match catch_unwind(AssertUnwindSafe(f)) {
        Ok(Ok(v)) => Res::Ok(v),
        Ok(Err(e)) => Res::Err(kind(&e)),
        Err(p) => Res::Panic(panic_msg(p)),
    }
}

pub fn compile(dialect: Dialect, pattern: &str, flags: &str, no_opt: bool) -> Res<Regex> {
    regexml::verif_hooks::set_optimizations_disabled(no_opt);
    let r = guarded(|| match dialect {
        Dialect::XPath => Regex::xpath(pattern, flags),
        Dialect::Xsd => Regex::xsd(pattern, flags),
    });
    regexml::verif_hooks::set_optimizations_disabled(false);
    r
}

fn conv_m(e: &MatchEntry) -> MEntry {
    match e {
        MatchEntry::String(s) => MEntry::S(s.clone()),
        MatchEntry::Group { nr, value } => MEntry::G(*nr, value.iter().map(conv_m).collect()),
    }
}

pub fn conv_a(e: &AnalyzeEntry) -> AEntry {
    match e {
        AnalyzeEntry::Match(v) => AEntry::Match(v.iter().map(conv_m).collect()),
        AnalyzeEntry::NonMatch(s) => AEntry::NonMatch(s.clone()),
    }
}

/// Drive an iterator with a cap; after the first None poll three more times.
pub fn drive<I: Iterator, T>(mut it: I, cap: usize, conv: impl Fn(&I::Item) -> T) -> IterOut<T> {
    let mut out = IterOut {
        items: Vec::new(),
        capped: false,
        none_stable: true,
        panic: None,
    };
    loop {
        let step = catch_unwind(AssertUnwindSafe(|| it.next()));
        match step {
            Err(p) => {
                out.panic = Some(panic_msg(p));
                // the iterator is in an unknown state; do not touch it again
                std::mem::forget(it);
                return out;
            }
            Ok(Some(item)) => {
                out.items.push(conv(&item));
                if out.items.len() > cap {
                    out.capped = true;
                    return out;
                }
            }
            Ok(None) => {
                for _ in 0..3 {
                    match catch_unwind(AssertUnwindSafe(|| it.next())) {
                        Ok(None) => {}
                        Ok(Some(_)) => out.none_stable = false,
                        Err(p) => {
                            out.panic = Some(panic_msg(p));
                            std::mem::forget(it);
                            return out;
                        }
                    }
                }
                return out;
            }
        }
    }
}

pub fn tokens_of(re: &Regex, input: &str) -> Res<IterOut<String>> {
    let n = input.chars().count();
    guarded(|| re.tokenize(input).map(|it| drive(it, n + 3, |s: &String| s.clone())))
}

pub fn analyze_of(re: &Regex, input: &str) -> Res<IterOut<AEntry>> {
    let n = input.chars().count();
    guarded(|| re.analyze(input).map(|it| drive(it, 2 * n + 3, conv_a)))
}

fn facts_of(re: &Regex) -> Facts {
    let f = regexml::verif_hooks::facts(re);
    Facts {
        prefix: f.prefix,
        initial_char_class: f.initial_char_class,
        preconditions: f.preconditions,
        has_bol: f.has_bol,
        minimum_length: f.minimum_length,
        unambiguous_repeats: f.unambiguous_repeats,
        operators: f.operators.iter().map(|s| s.to_string()).collect(),
    }
}

pub fn execute(job: &Job) -> Outcome {
    if let Some(h) = &job.history {
        return crate::worker_history::execute_history(h);
    }
    let _ = regexml::verif_hooks::take_force_progress_cutoffs();
    let re = compile(job.dialect, &job.pattern, &job.flags, job.no_opt);
    let compile_cutoffs = regexml::verif_hooks::take_force_progress_cutoffs();
    let re = match re {
        Res::Ok(re) => re,
        Res::Err(e) => {
            return Outcome {
                compile: Res::Err(e),
                compile_cutoffs,
                per_input: vec![],
                history: None,
            }
        }
        Res::Panic(p) => {
            return Outcome {
                compile: Res::Panic(p),
                compile_cutoffs,
                per_input: vec![],
                history: None,
            }
        }
    };
    let facts = match catch_unwind(AssertUnwindSafe(|| facts_of(&re))) {
        Ok(f) => f,
        Err(_) => Facts::default(),
    };
    let mut per_input = Vec::with_capacity(job.inputs.len());
    for input in &job.inputs {
        let mut o = InputOutcome {
            is_match: None,
            replace: vec![],
            tokens: None,
            analyze: None,
            cutoffs: [0; 4],
        };
        let take = regexml::verif_hooks::take_force_progress_cutoffs;
        if job.apis & API_IS_MATCH != 0 {
            o.is_match = Some(guarded(|| Ok(re.is_match(input))));
            o.cutoffs[0] = take();
        }
        if job.apis & API_REPLACE != 0 {
            for rep in &job.replacements {
                o.replace.push(guarded(|| re.replace_all(input, rep)));
            }
            o.cutoffs[1] = take();
        }
        if job.apis & API_TOKENIZE != 0 {
            o.tokens = Some(tokens_of(&re, input));
            o.cutoffs[2] = take();
        }
        if job.apis & API_ANALYZE != 0 {
            o.analyze = Some(analyze_of(&re, input));
            o.cutoffs[3] = take();
        }
        per_input.push(o);
    }
    Outcome {
        compile: Res::Ok(facts),
        compile_cutoffs,
        per_input,
        history: None,
    }
}

pub fn worker_main() -> ! {
    std::panic::set_hook(Box::new(|_| {}));
    // a runaway loop that allocates must not take the machine down: cap the address space of the worker
    // (normal jobs need a few tens of MB); exceeding it aborts the worker, which the supervisor reports as Died
    let gb: u64 = std::env::var("VERIF_WORKER_MEM_GB").ok().and_then(|s| s.parse().ok()).unwrap_or(4);
    unsafe {
        let lim = libc::rlimit { rlim_cur: gb << 30, rlim_max: gb << 30 };
        libc::setrlimit(libc::RLIMIT_AS, &lim);
    }
    let stdin = std::io::stdin();
    let stdout = std::io::stdout();
    let mut inp = stdin.lock();
    let mut out = stdout.lock();
    loop {
        let mut lenb = [0u8; 4];
        if inp.read_exact(&mut lenb).is_err() {
            std::process::exit(0);
        }
        let len = u32::from_le_bytes(lenb) as usize;
        let mut buf = vec![0u8; len];
        if inp.read_exact(&mut buf).is_err() {
            std::process::exit(0);
        }
        let job: Job = match serde_json::from_slice(&buf) {
            Ok(j) => j,
            Err(_) => std::process::exit(3),
        };
        let outcome = execute(&job);
        let bytes = serde_json::to_vec(&outcome).unwrap();
        let _ = out.write_all(&(bytes.len() as u32).to_le_bytes());
        let _ = out.write_all(&bytes);
        let _ = out.flush();
    }
}
