//! R2: ordered-choice backtracking reference matcher (spans + captures), written from the
//! specification of Perl-style priority: alternatives in source order, greedy = more iterations first,
//! reluctant = fewer first, earlier term dominates, captures restored on backtracking.
use crate::ast::*;
use crate::oracle_lang::Flags;
use crate::ucd;
use std::cell::Cell;

pub type Caps = Vec<Option<(usize, usize)>>;

pub struct Bt<'a> {
    pub s: &'a [char],
    pub f: Flags,
    pub ngroups: usize,
    steps: Cell<u64>,
    pub budget: u64,
    overflow: Cell<bool>,
    /// number of times an alternative/iteration containing a capturing group was abandoned
    pub group_backtracks: Cell<u64>,
}

#[derive(Clone, Debug, PartialEq, Eq)]
pub struct Match {
    pub start: usize,
    pub end: usize,
    pub caps: Caps,
}

type K<'k> = &'k mut dyn FnMut(usize, &Caps) -> bool;

impl<'a> Bt<'a> {
    pub fn new(root: &Node, s: &'a [char], f: Flags) -> Bt<'a> {
        Bt {
            s,
            f,
            ngroups: root.n_groups() as usize,
            steps: Cell::new(0),
            budget: 1_000_000,
            overflow: Cell::new(false),
            group_backtracks: Cell::new(0),
        }
    }
    pub fn overflowed(&self) -> bool {
        self.overflow.get()
    }
    fn tick(&self) -> bool {
        let s = self.steps.get() + 1;
        self.steps.set(s);
        if s > self.budget {
            self.overflow.set(true);
            return false;
        }
        true
    }
    fn char_matches(&self, n: &Node, c: char) -> bool {
        match n {
            Node::Lit(l) => ucd::cmp_char(*l, c, self.f.i),
            Node::Dot => self.f.s || !(c == '\n' || c == '\r'),
            Node::Class(ce) => ucd::class_contains(ce, c, self.f.i),
            Node::Esc(e) => ucd::esc_contains(e, c),
            _ => false,
        }
    }

    fn m(&self, n: &Node, p: usize, caps: &Caps, k: K) -> bool {
        if !self.tick() {
            return false;
        }
        match n {
            Node::Empty => k(p, caps),
            Node::Lit(_) | Node::Dot | Node::Class(_) | Node::Esc(_) => {
                p < self.s.len() && self.char_matches(n, self.s[p]) && k(p + 1, caps)
            }
            Node::Bol => {
                (p == 0 || (self.f.m && self.s[p - 1] == '\n' && p < self.s.len())) && k(p, caps)
            }
            Node::Eol => (p == self.s.len() || (self.f.m && self.s[p] == '\n')) && k(p, caps),
            Node::Group(g, b) => {
                if *g == 0 {
                    self.m(b, p, caps, k)
                } else {
                    let g = *g as usize;
                    let r = self.m(b, p, caps, &mut |q, c: &Caps| {
                        let mut c2 = c.clone();
                        c2[g] = Some((p, q));
                        k(q, &c2)
                    });
                    if !r {
                        self.group_backtracks.set(self.group_backtracks.get() + 1);
                    }
                    r
                }
            }
            Node::Alt(v) => {
                for c in v {
                    if self.m(c, p, caps, k) {
                        return true;
                    }
                    if self.overflow.get() {
                        return false;
                    }
                }
                false
            }
            Node::Cat(v) => self.cat(v, p, caps, k),
            Node::Rep {
                body,
                min,
                max,
                greedy,
                ..
            } => self.rep(body, *min, *max, *greedy, 0, p, caps, k),
            Node::BackRef(g) => match caps[*g as usize] {
                None => k(p, caps),
                Some((a, b)) => {
                    let l = b - a;
                    if p + l > self.s.len() {
                        return false;
                    }
                    for i in 0..l {
                        if !ucd::cmp_char(self.s[a + i], self.s[p + i], self.f.i) {
                            return false;
                        }
                    }
                    k(p + l, caps)
                }
            },
        }
    }

    fn cat(&self, v: &[Node], p: usize, caps: &Caps, k: K) -> bool {
        match v.split_first() {
            None => k(p, caps),
            Some((first, rest)) => self.m(first, p, caps, &mut |q, c: &Caps| self.cat(rest, q, c, k)),
        }
    }

    #[allow(clippy::too_many_arguments)]
    fn rep(&self, body: &Node, min: u32, max: Option<u32>, greedy: bool, j: u32, p: usize, caps: &Caps, k: K) -> bool {
        if !self.tick() {
            return false;
        }
        let can_more = max.map_or(true, |m| j < m);
        let can_stop = j >= min;
        let mut more = |k: K| -> bool {
            can_more
                && self.m(body, p, caps, &mut |q, c: &Caps| {
                    (q > p || j < min) && self.rep(body, min, max, greedy, j + 1, q, c, k)
                })
        };
        if greedy {
            if more(k) {
                return true;
            }
            if self.overflow.get() {
                return false;
            }
            can_stop && k(p, caps)
        } else {
            if can_stop && k(p, caps) {
                return true;
            }
            if self.overflow.get() {
                return false;
            }
            more(k)
        }
    }

    /// first match (by ordered choice) starting exactly at `p`
    pub fn match_at(&self, root: &Node, p: usize) -> Option<Match> {
        let mut found: Option<Match> = None;
        let caps0: Caps = vec![None; self.ngroups + 1];
        self.m(root, p, &caps0, &mut |q, c: &Caps| {
            found = Some(Match {
                start: p,
                end: q,
                caps: c.clone(),
            });
            true
        });
        if self.overflow.get() {
            return None;
        }
        found
    }

    /// first match from the leftmost start >= from
    pub fn find(&self, root: &Node, from: usize) -> Option<Match> {
        for p in from..=self.s.len() {
            if let Some(m) = self.match_at(root, p) {
                return Some(m);
            }
            if self.overflow.get() {
                return None;
            }
        }
        None
    }

    /// all matches, scanning left to right, resuming at the end of the previous match
    /// (a zero-length match advances by one, as every mainstream engine does)
    pub fn find_all(&self, root: &Node) -> Option<Vec<Match>> {
        let mut out = vec![];
        let mut pos = 0;
        while pos <= self.s.len() {
            match self.find(root, pos) {
                Some(m) => {
                    pos = if m.end == m.start { m.end + 1 } else { m.end };
                    out.push(m);
                }
                None => break,
            }
            if self.overflow.get() {
                return None;
            }
        }
        if self.overflow.get() {
            None
        } else {
            Some(out)
        }
    }
}
