//! R3: Unicode / XML character data from sources independent of the engine's code paths,
//! R4: set algebra over class expressions, and the case-counterpart relation used by the oracles.
use crate::ast::*;
use icu_casemap::CaseMapper;
use icu_properties::{maps, GeneralCategory as GC};
use std::collections::HashMap;
use std::sync::OnceLock;

pub const TWO_LETTER: [&str; 29] = [
    "Lu", "Ll", "Lt", "Lm", "Lo", "Mn", "Mc", "Me", "Nd", "Nl", "No", "Pc", "Pd", "Ps", "Pe", "Pi",
    "Pf", "Po", "Zs", "Zl", "Zp", "Sm", "Sc", "Sk", "So", "Cc", "Cf", "Co", "Cn",
];
pub const ONE_LETTER: [&str; 7] = ["L", "M", "N", "P", "Z", "S", "C"];

/// two-letter name of the general category of c (hand-written table from UAX #44 Table 12)
pub fn gc_name(c: char) -> &'static str {
    match maps::general_category().get(c) {
        GC::UppercaseLetter => "Lu",
        GC::LowercaseLetter => "Ll",
        GC::TitlecaseLetter => "Lt",
        GC::ModifierLetter => "Lm",
        GC::OtherLetter => "Lo",
        GC::NonspacingMark => "Mn",
        GC::SpacingMark => "Mc",
        GC::EnclosingMark => "Me",
        GC::DecimalNumber => "Nd",
        GC::LetterNumber => "Nl",
        GC::OtherNumber => "No",
        GC::ConnectorPunctuation => "Pc",
        GC::DashPunctuation => "Pd",
        GC::OpenPunctuation => "Ps",
        GC::ClosePunctuation => "Pe",
        GC::InitialPunctuation => "Pi",
        GC::FinalPunctuation => "Pf",
        GC::OtherPunctuation => "Po",
        GC::SpaceSeparator => "Zs",
        GC::LineSeparator => "Zl",
        GC::ParagraphSeparator => "Zp",
        GC::MathSymbol => "Sm",
        GC::CurrencySymbol => "Sc",
        GC::ModifierSymbol => "Sk",
        GC::OtherSymbol => "So",
        GC::Control => "Cc",
        GC::Format => "Cf",
        GC::PrivateUse => "Co",
        GC::Unassigned => "Cn",
        GC::Surrogate => "Cs",
    }
}

pub fn in_category(name: &str, c: char) -> bool {
    let g = gc_name(c);
    if name.len() == 1 {
        g.starts_with(name)
    } else {
        g == name
    }
}

pub struct Blocks {
    /// lookup name (spaces removed) -> ranges
    pub by_name: HashMap<String, Vec<(u32, u32)>>,
    pub names: Vec<String>,
}

fn parse_blocks(text: &str, out: &mut Vec<(String, u32, u32)>) {
    for line in text.lines() {
        let line = line.trim();
        if line.is_empty() || line.starts_with('#') {
            continue;
        }
        let mut f = line.split(';');
        let range = f.next().unwrap().trim();
        let name = f.next().unwrap().trim();
        let mut r = range.split("..");
        let a = u32::from_str_radix(r.next().unwrap(), 16).unwrap();
        let b = u32::from_str_radix(r.next().unwrap(), 16).unwrap();
        out.push((name.to_string(), a, b));
    }
}

pub fn blocks() -> &'static Blocks {
    static B: OnceLock<Blocks> = OnceLock::new();
    B.get_or_init(|| {
        let dir = "/repo/regexml-ucd-blocks/src";
        let mut v = vec![];
        for f in ["Blocks.txt", "CompatBlocks.txt"] {
            let text = std::fs::read_to_string(format!("{dir}/{f}")).unwrap_or_else(|e| {
                eprintln!("harness error: cannot read {dir}/{f}: {e}");
                std::process::exit(2)
            });
            parse_blocks(&text, &mut v);
        }
        let mut by_name = HashMap::new();
        let mut names = vec![];
        for (name, a, b) in v {
            let key: String = name.chars().filter(|c| *c != ' ').collect();
            if !by_name.contains_key(&key) {
                names.push(key.clone());
            }
            by_name.insert(key, vec![(a, b)]);
        }
        // XSD 1.1 part 2, G.4.2.3
        by_name.insert(
            "PrivateUse".to_string(),
            vec![(0xE000, 0xF8FF), (0xF0000, 0xFFFFD), (0x100000, 0x10FFFD)],
        );
        names.push("PrivateUse".to_string());
        Blocks { by_name, names }
    })
}

pub fn in_block(name: &str, c: char) -> Option<bool> {
    let b = blocks().by_name.get(name)?;
    let u = c as u32;
    Some(b.iter().any(|(a, z)| *a <= u && u <= *z))
}

/// XML 1.0 (5th ed.) production [4] NameStartChar
pub const NAME_START: &[(u32, u32)] = &[
    (0x3A, 0x3A),
    (0x41, 0x5A),
    (0x5F, 0x5F),
    (0x61, 0x7A),
    (0xC0, 0xD6),
    (0xD8, 0xF6),
    (0xF8, 0x2FF),
    (0x370, 0x37D),
    (0x37F, 0x1FFF),
    (0x200C, 0x200D),
    (0x2070, 0x218F),
    (0x2C00, 0x2FEF),
    (0x3001, 0xD7FF),
    (0xF900, 0xFDCF),
    (0xFDF0, 0xFFFD),
    (0x10000, 0xEFFFF),
];
/// XML 1.0 (5th ed.) production [4a] NameChar additions
pub const NAME_EXTRA: &[(u32, u32)] = &[
    (0x2D, 0x2E),
    (0x30, 0x39),
    (0xB7, 0xB7),
    (0x300, 0x36F),
    (0x203F, 0x2040),
];

fn in_ranges(r: &[(u32, u32)], c: char) -> bool {
    let u = c as u32;
    r.iter().any(|(a, b)| *a <= u && u <= *b)
}

pub fn esc_contains(e: &Esc, c: char) -> bool {
    let pos = match &e.kind {
        EscKind::Digit => gc_name(c) == "Nd",
        EscKind::Word => !matches!(gc_name(c).as_bytes()[0], b'P' | b'Z' | b'C'),
        EscKind::Space => matches!(c, ' ' | '\t' | '\n' | '\r'),
        EscKind::NameStart => in_ranges(NAME_START, c),
        EscKind::NameChar => in_ranges(NAME_START, c) || in_ranges(NAME_EXTRA, c),
        EscKind::Cat(n) => in_category(n, c),
        EscKind::Block(n) => in_block(n, c).unwrap_or(false),
    };
    pos != e.neg
}

thread_local! {
    static CM: CaseMapper = CaseMapper::new();
}

/// the simple upper/lower-case counterpart of c, if it has one different from itself
pub fn counterpart(c: char) -> Option<char> {
    if c.is_ascii() {
        return if c.is_ascii_lowercase() {
            Some(c.to_ascii_uppercase())
        } else if c.is_ascii_uppercase() {
            Some(c.to_ascii_lowercase())
        } else {
            None
        };
    }
    CM.with(|cm| {
        let l = cm.simple_lowercase(c);
        if l != c {
            return Some(l);
        }
        let u = cm.simple_uppercase(c);
        if u != c {
            return Some(u);
        }
        None
    })
}

/// a == b, or (case-blind) they are simple case counterparts of each other
pub fn cmp_char(a: char, b: char, case_blind: bool) -> bool {
    a == b || (case_blind && (counterpart(a) == Some(b) || counterpart(b) == Some(a)))
}

/// R4 membership: is scalar `d` in class expression `ce` (case-blind: an item matches d iff it contains d
/// or d's case counterpart; closure is applied to chars and ranges only, before complement and difference)
pub fn class_contains(ce: &ClassExpr, d: char, case_blind: bool) -> bool {
    let dd = if case_blind { counterpart(d) } else { None };
    let mut pos = false;
    for it in &ce.items {
        let hit = match it {
            Item::Char(c) => *c == d || Some(*c) == dd,
            Item::Range(a, b) => (*a <= d && d <= *b) || dd.map_or(false, |x| *a <= x && x <= *b),
            Item::Esc(e) => esc_contains(e, d),
        };
        if hit {
            pos = true;
            break;
        }
    }
    let mut r = pos != ce.neg;
    if r {
        if let Some(s) = &ce.sub {
            if class_contains(s, d, case_blind) {
                r = false;
            }
        }
    }
    r
}

/// all Unicode scalar values
pub fn all_scalars() -> impl Iterator<Item = char> {
    (0u32..=0x10FFFF).filter_map(char::from_u32)
}
