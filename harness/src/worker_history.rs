//! C18: executes a call history in several ways inside the worker and compares.
use crate::proto::*;

pub fn execute_history(_h: &History) -> Outcome {
    Outcome {
        compile: Res::Ok(Facts::default()),
        compile_cutoffs: 0,
        per_input: vec![],
        history: Some(HistoryOutcome { mismatches: vec!["not implemented".into()], calls: 0, max_live_iters_on_one_regex: 0, shared_pattern_pairs: 0, compile_failed: false }),
    }
}
