//! C18: executes a call history in several ways inside the worker and compares every result with the
//! result of the same call on a freshly compiled Regex.
use crate::proto::*;
use crate::worker::{analyze_of, compile, conv_a, tokens_of};
use regexml::Regex;
use std::panic::{catch_unwind, AssertUnwindSafe};

#[derive(Clone, Debug, PartialEq)]
enum CallResult {
    Bool(Res<bool>),
    Str(Res<String>),
    Tokens(Res<IterOut<String>>),
    Entries(Res<IterOut<AEntry>>),
}

#[derive(Clone, Debug)]
enum Call {
    IsMatch(usize, String),
    Replace(usize, String, String),
    Tokens(usize, String),
    Analyze(usize, String),
}

fn guarded<T>(f: impl FnOnce() -> Result<T, regexml::Error>) -> Res<T> {
    match catch_unwind(AssertUnwindSafe(f)) {
        Ok(Ok(v)) => Res::Ok(v),
        Ok(Err(e)) => Res::Err(match e {
            regexml::Error::Internal => ErrKind::Internal,
            regexml::Error::InvalidFlags(_) => ErrKind::InvalidFlags,
            regexml::Error::Syntax(_) => ErrKind::Syntax,
            regexml::Error::MatchesEmptyString => ErrKind::MatchesEmptyString,
            regexml::Error::InvalidReplacementString(_) => ErrKind::InvalidReplacementString,
        }),
        Err(_) => Res::Panic("panic".into()),
    }
}

thread_local! {
    /// one line buffer per thread, never reallocated: every haystack of a history is handed to the engine at the same
    /// address, the way a program that reads lines into one buffer does (a result must depend on the text alone)
    static LINE: std::cell::RefCell<String> = std::cell::RefCell::new(String::with_capacity(1 << 16));
}

fn in_line_buffer<T>(s: &str, f: impl FnOnce(&str) -> T) -> T {
    LINE.with(|b| {
        let mut b = b.borrow_mut();
        b.clear();
        b.push_str(s);
        f(&b)
    })
}

fn run_call(re: &Regex, c: &Call) -> CallResult {
    match c {
        Call::IsMatch(_, s) => in_line_buffer(s, |s| CallResult::Bool(guarded(|| Ok(re.is_match(s))))),
        Call::Replace(_, s, r) => in_line_buffer(s, |s| CallResult::Str(guarded(|| re.replace_all(s, r)))),
        Call::Tokens(_, s) => in_line_buffer(s, |s| CallResult::Tokens(tokens_of(re, s))),
        Call::Analyze(_, s) => in_line_buffer(s, |s| CallResult::Entries(analyze_of(re, s))),
    }
}

fn re_index(c: &Call) -> usize {
    match c {
        Call::IsMatch(i, _) | Call::Replace(i, _, _) | Call::Tokens(i, _) | Call::Analyze(i, _) => *i,
    }
}

struct Lcg(u64);
impl Lcg {
    fn next(&mut self) -> u64 {
        self.0 = self.0.wrapping_mul(6364136223846793005).wrapping_add(1442695040888963407);
        self.0 >> 33
    }
}

/// shares a reference across threads whatever the auto traits say (the Send + Sync claim itself is
/// checked at compile time by the separate `sendsync` crate)
struct Shared<'a>(&'a [Regex]);
unsafe impl Send for Shared<'_> {}
unsafe impl Sync for Shared<'_> {}

enum Live<'a> {
    Tokens { re: usize, input: String, it: regexml_token_iter::It<'a>, got: Vec<String>, done: bool },
    Analyze { re: usize, input: String, it: Box<dyn Iterator<Item = regexml::AnalyzeEntry> + 'a>, got: Vec<AEntry>, done: bool },
}

/// the token iterator type is not exported by name; go through a boxed iterator
mod regexml_token_iter {
    pub type It<'a> = Box<dyn Iterator<Item = String> + 'a>;
}

pub fn execute_history(h: &History) -> Outcome {
    let mut mismatches: Vec<String> = vec![];
    let fresh = |i: usize| -> Option<Regex> {
        let (d, p, f) = &h.pool[i];
        match compile(*d, p, f, false) {
            Res::Ok(r) => Some(r),
            _ => None,
        }
    };
    // shared objects
    let mut pool: Vec<Regex> = vec![];
    for i in 0..h.pool.len() {
        match fresh(i) {
            Some(r) => pool.push(r),
            None => {
                return Outcome {
                    compile: Res::Ok(Facts::default()),
                    compile_cutoffs: 0,
                    per_input: vec![],
                    history: Some(HistoryOutcome { mismatches: vec![], calls: 0, max_live_iters_on_one_regex: 0, shared_pattern_pairs: 0, compile_failed: true }),
                }
            }
        }
    }
    let np = pool.len();
    let mut shared_pairs = 0;
    for i in 0..np {
        for j in i + 1..np {
            if h.pool[i] == h.pool[j] {
                shared_pairs += 1;
            }
        }
    }
    // the simple calls of the history, with expected results from fresh objects (execution 1)
    let mut calls: Vec<Call> = vec![];
    for op in &h.ops {
        match op {
            Op::IsMatch { re, input } => calls.push(Call::IsMatch(re % np, input.clone())),
            Op::Replace { re, input, rep } => calls.push(Call::Replace(re % np, input.clone(), rep.clone())),
            Op::OpenTokens { re, input } => calls.push(Call::Tokens(re % np, input.clone())),
            Op::OpenAnalyze { re, input } => calls.push(Call::Analyze(re % np, input.clone())),
            _ => {}
        }
    }
    let expected: Vec<CallResult> = calls
        .iter()
        .map(|c| match fresh(re_index(c)) {
            Some(r) => run_call(&r, c),
            None => CallResult::Bool(Res::Panic("compile failed the second time".into())),
        })
        .collect();
    // re-running any call on another fresh object gives the same answer
    for (c, e) in calls.iter().zip(expected.iter()).take(6) {
        if let Some(r) = fresh(re_index(c)) {
            if run_call(&r, c) != *e {
                mismatches.push(format!("two fresh objects disagree on {c:?}"));
            }
        }
    }

    // execution 2: the history in order on the shared objects, iterators interleaved
    let mut live: Vec<Live> = vec![];
    let mut max_live_one = 0usize;
    let mut ci = 0usize;
    let expected_for = |ci: usize| expected[ci].clone();
    let mut finish = |l: Live, mism: &mut Vec<String>, full: bool, exp: &[(usize, String, bool, CallResult)]| {
        // compare what this iterator produced with the expected output (prefix if dropped early)
        let (re, input, is_tok, got_t, got_a) = match l {
            Live::Tokens { re, input, got, .. } => (re, input, true, got, vec![]),
            Live::Analyze { re, input, got, .. } => (re, input, false, vec![], got),
        };
        if let Some((_, _, _, e)) = exp.iter().find(|(r, s, t, _)| *r == re && *s == input && *t == is_tok) {
            match e {
                CallResult::Tokens(Res::Ok(it)) => {
                    let ok = if full { it.items == got_t } else { it.items.len() >= got_t.len() && it.items[..got_t.len()] == got_t[..] };
                    if !ok {
                        mism.push(format!("interleaved tokenize on regex #{re} input {input:?}: got {got_t:?}, fresh object gives {:?}", it.items));
                    }
                }
                CallResult::Entries(Res::Ok(it)) => {
                    let ok = if full { it.items == got_a } else { it.items.len() >= got_a.len() && it.items[..got_a.len()] == got_a[..] };
                    if !ok {
                        mism.push(format!("interleaved analyze on regex #{re} input {input:?}: got {got_a:?}, fresh object gives {:?}", it.items));
                    }
                }
                _ => {}
            }
        }
    };
    let exp_iters: Vec<(usize, String, bool, CallResult)> = calls
        .iter()
        .zip(expected.iter())
        .filter_map(|(c, e)| match c {
            Call::Tokens(r, s) => Some((*r, s.clone(), true, e.clone())),
            Call::Analyze(r, s) => Some((*r, s.clone(), false, e.clone())),
            _ => None,
        })
        .collect();
    let step = |l: &mut Live, k: usize| {
        for _ in 0..k {
            match l {
                Live::Tokens { it, got, done, input, .. } => {
                    if *done || got.len() > input.chars().count() + 3 {
                        break;
                    }
                    match catch_unwind(AssertUnwindSafe(|| it.next())) {
                        Ok(Some(t)) => got.push(t),
                        _ => *done = true,
                    }
                }
                Live::Analyze { it, got, done, input, .. } => {
                    if *done || got.len() > 2 * input.chars().count() + 3 {
                        break;
                    }
                    match catch_unwind(AssertUnwindSafe(|| it.next())) {
                        Ok(Some(t)) => got.push(conv_a(&t)),
                        _ => *done = true,
                    }
                }
            }
        }
    };
    for op in &h.ops {
        match op {
            Op::IsMatch { .. } | Op::Replace { .. } => {
                let c = &calls[ci];
                let got = run_call(&pool[re_index(c)], c);
                if got != expected_for(ci) {
                    mismatches.push(format!("in-order history: {c:?} on the shared object gives {got:?}, on a fresh object {:?}", expected[ci]));
                }
                ci += 1;
            }
            Op::OpenTokens { re, input } => {
                let r = re % np;
                if let Ok(Ok(it)) = in_line_buffer(input, |input| catch_unwind(AssertUnwindSafe(|| pool[r].tokenize(input)))) {
                    live.push(Live::Tokens { re: r, input: input.clone(), it: Box::new(it), got: vec![], done: false });
                }
                ci += 1;
            }
            Op::OpenAnalyze { re, input } => {
                let r = re % np;
                if let Ok(Ok(it)) = in_line_buffer(input, |input| catch_unwind(AssertUnwindSafe(|| pool[r].analyze(input)))) {
                    live.push(Live::Analyze { re: r, input: input.clone(), it: Box::new(it), got: vec![], done: false });
                }
                ci += 1;
            }
            Op::Step { iter, k } => {
                if !live.is_empty() {
                    let n = live.len();
                    step(&mut live[iter % n], *k);
                }
            }
            Op::Drop { iter } => {
                if !live.is_empty() {
                    let n = live.len();
                    let l = live.remove(iter % n);
                    let full = match &l {
                        Live::Tokens { done, .. } | Live::Analyze { done, .. } => *done,
                    };
                    finish(l, &mut mismatches, full, &exp_iters);
                }
            }
        }
        for r in 0..np {
            let n = live
                .iter()
                .filter(|l| match l {
                    Live::Tokens { re, .. } | Live::Analyze { re, .. } => *re == r,
                })
                .count();
            max_live_one = max_live_one.max(n);
        }
    }
    // drain what is still alive, round-robin
    let mut guard = 0;
    while live.iter().any(|l| match l {
        Live::Tokens { done, .. } | Live::Analyze { done, .. } => !*done,
    }) && guard < 10_000
    {
        for l in live.iter_mut() {
            step(l, 1);
        }
        guard += 1;
    }
    for l in live.drain(..) {
        finish(l, &mut mismatches, true, &exp_iters);
    }

    // execution 3: the calls in a seeded shuffled order on the shared objects
    let mut order: Vec<usize> = (0..calls.len()).collect();
    let mut rng = Lcg(h.shuffle_seed | 1);
    for i in (1..order.len()).rev() {
        let j = (rng.next() as usize) % (i + 1);
        order.swap(i, j);
    }
    for &i in &order {
        let got = run_call(&pool[re_index(&calls[i])], &calls[i]);
        if got != expected[i] {
            mismatches.push(format!("shuffled order: {:?} on the shared object gives {got:?}, on a fresh object {:?}", calls[i], expected[i]));
        }
    }

    // execution 4: the same calls from several threads sharing the objects
    if h.threads > 1 && !calls.is_empty() {
        let shared = Shared(&pool);
        let barrier = std::sync::Barrier::new(h.threads as usize);
        let found: std::sync::Mutex<Vec<String>> = std::sync::Mutex::new(vec![]);
        std::thread::scope(|sc| {
            for t in 0..h.threads as usize {
                let shared = &shared;
                let barrier = &barrier;
                let found = &found;
                let calls = &calls;
                let expected = &expected;
                sc.spawn(move || {
                    let pool = shared.0;
                    barrier.wait();
                    for rep in 0..h.thread_reps as usize {
                        for k in 0..calls.len() {
                            let i = (k + t * 7 + rep * 3) % calls.len();
                            let got = run_call(&pool[re_index(&calls[i])], &calls[i]);
                            if got != expected[i] {
                                found.lock().unwrap().push(format!("thread {t}: {:?} gives {got:?}, on a fresh object {:?}", calls[i], expected[i]));
                                return;
                            }
                        }
                    }
                });
            }
        });
        mismatches.extend(found.into_inner().unwrap());
    }
    mismatches.truncate(5);
    Outcome {
        compile: Res::Ok(Facts::default()),
        compile_cutoffs: 0,
        per_input: vec![],
        history: Some(HistoryOutcome { mismatches, calls: calls.len(), max_live_iters_on_one_regex: max_live_one, shared_pattern_pairs: shared_pairs, compile_failed: false }),
    }
}
