//! Decoding of fuzzer bytes into a pattern AST, flags and inputs — structural, so that libFuzzer's byte mutations are
//! small edits of the tree. Shared by the libFuzzer target `lang` (fuzz/fuzz_targets/lang.rs) and the harness, which
//! re-judges every artifact.
use crate::ast::*;

pub const LITS: &[char] = &['a', 'b', 'c', 'A', '\n', 'x', '1', 'é'];
pub const INPUT: &[char] = &['a', 'b', 'c', 'A', '\n', 'x', '1', 'é', 'B', ' '];
/// (min, max, greedy)
pub const QUANTS: &[(u32, Option<u32>, bool)] = &[
    (0, Some(1), true),
    (0, None, true),
    (1, None, true),
    (2, Some(2), true),
    (3, Some(3), true),
    (1, Some(2), true),
    (2, Some(3), true),
    (2, None, true),
    (0, Some(2), true),
    (0, Some(1), false),
    (0, None, false),
    (1, None, false),
    (2, Some(3), false),
    (1, Some(2), false),
    (2, Some(2), false),
    (0, Some(0), true),
];

struct Cur<'a> {
    d: &'a [u8],
    p: usize,
    nodes: usize,
}

impl Cur<'_> {
    fn next(&mut self) -> Option<u8> {
        let b = *self.d.get(self.p)?;
        self.p += 1;
        Some(b)
    }
}

fn classes() -> Vec<ClassExpr> {
    vec![
        ClassExpr { neg: false, items: vec![Item::Char('a'), Item::Char('b')], sub: None },
        ClassExpr { neg: false, items: vec![Item::Range('a', 'c')], sub: None },
        ClassExpr { neg: true, items: vec![Item::Char('a')], sub: None },
        ClassExpr { neg: true, items: vec![Item::Range('a', 'c'), Item::Char('\n')], sub: None },
        ClassExpr { neg: false, items: vec![Item::Esc(Esc { kind: EscKind::Digit, neg: false }), Item::Char('x')], sub: None },
        ClassExpr { neg: false, items: vec![Item::Range('a', 'x')], sub: Some(Box::new(ClassExpr { neg: false, items: vec![Item::Char('b')], sub: None })) },
        ClassExpr { neg: false, items: vec![Item::Esc(Esc { kind: EscKind::Cat("Lu".into()), neg: false })], sub: None },
        ClassExpr { neg: false, items: vec![Item::Char('A'), Item::Char('é')], sub: None },
    ]
}

fn node(c: &mut Cur, depth: u32) -> Node {
    c.nodes += 1;
    let Some(b) = c.next() else { return Node::Lit('a') };
    let (op, arg) = (b % 16, (b / 16) as usize);
    if depth >= 5 || c.nodes > 24 {
        return Node::Lit(LITS[arg % LITS.len()]);
    }
    match op {
        0..=3 => Node::Lit(LITS[arg % LITS.len()]),
        4 => Node::Dot,
        5 => {
            let cl = classes();
            Node::Class(cl[arg % cl.len()].clone())
        }
        6 => {
            let kinds = [EscKind::Digit, EscKind::Space, EscKind::Word];
            Node::Esc(Esc { kind: kinds[arg % 3].clone(), neg: arg & 8 != 0 })
        }
        7 => Node::Bol,
        8 => Node::Eol,
        9 => Node::cap(node(c, depth + 1)),
        10 => {
            let n = 2 + arg % 2;
            Node::Cat((0..n).map(|_| node(c, depth + 1)).collect())
        }
        11 => {
            let n = 2 + arg % 2;
            Node::ncap(Node::Alt((0..n).map(|_| node(c, depth + 1)).collect()))
        }
        12 | 13 => {
            let (min, max, greedy) = QUANTS[arg % QUANTS.len()];
            let body = node(c, depth + 1);
            Node::Rep { body: Box::new(body), min, max, greedy, brace: op == 13 }
        }
        14 => Node::BackRef((arg as u32) * 4369),
        _ => Node::Empty,
    }
}

pub struct AstTuple {
    /// raw tree (not yet resolved: group numbers and back-reference selectors as generated)
    pub node: Node,
    pub flags: String,
    pub inputs: Vec<String>,
}

/// byte 0: flag bits; then the tree in pre-order (one byte per node, two for quantifiers' and classes' arguments packed
/// in the high nibble); after the first 0xFF the inputs, separated by 0xFE, one byte per character
pub fn decode(data: &[u8]) -> Option<AstTuple> {
    let (&h, rest) = data.split_first()?;
    let mut flags = String::new();
    for (bit, ch) in [(1u8, 'i'), (2, 'm'), (4, 's')] {
        if h & bit != 0 {
            flags.push(ch);
        }
    }
    let cut = rest.iter().position(|b| *b == 0xFF).unwrap_or(rest.len());
    let (tree, tail) = rest.split_at(cut);
    let mut c = Cur { d: tree, p: 0, nodes: 0 };
    let n = node(&mut c, 0);
    let tail = if tail.is_empty() { tail } else { &tail[1..] };
    let mut inputs: Vec<String> = tail.split(|b| *b == 0xFE).take(3).map(|s| s.iter().take(10).map(|b| INPUT[*b as usize % INPUT.len()]).collect()).collect();
    if inputs.is_empty() {
        inputs.push(String::new());
    }
    Some(AstTuple { node: n, flags, inputs })
}
