//! Decoding of fuzzer bytes into a (dialect, pattern, flags, input, replacement) tuple.
//! Shared by the libFuzzer target (fuzz/fuzz_targets/api.rs) and the harness, which re-judges every artifact.
//! Layout: byte 0 = dialect bit + flag bits; then three sections separated by 0xFF, each byte an index into an alphabet.

pub const PAT: &[char] = &[
    '(', ')', '[', ']', '{', '}', '\\', '?', '*', '+', '|', '.', '^', '$', '-', ',', ':', 'a', 'b', 'c', 'p', 'P', 'd', 'D', 'w', 'W', 's', 'S', 'i', 'I', 'C', 'n', 'r', 't', 'L', 'u',
    '0', '1', '2', '3', '9', 'é', '𐐀', '\n', ' ', 'q', 'x', 'A', 'B', '&', '\u{301}',
];
pub const INP: &[char] = &['a', 'b', 'c', 'A', 'B', '1', '2', '\n', '\r', ' ', '-', '𐐀', 'é', '(', ')', '[', '$', '^', 'x', 'd'];
pub const REP: &[char] = &['$', '\\', '0', '1', '2', '3', '9', 'a', 'b', '{', '}', '𐐀'];

pub struct Tuple {
    pub xsd: bool,
    pub pattern: String,
    pub flags: String,
    pub input: String,
    pub replacement: String,
}

pub fn decode(data: &[u8]) -> Option<Tuple> {
    let (&h, rest) = data.split_first()?;
    let mut flags = String::new();
    for (bit, c) in [(1u8, 's'), (2, 'm'), (4, 'i'), (8, 'x'), (16, 'q')] {
        if h & bit != 0 {
            flags.push(c);
        }
    }
    if h & 96 == 96 {
        flags.push('Z'); // an invalid flag now and then
    }
    let mut parts = rest.split(|b| *b == 0xFF);
    let sec = |p: Option<&[u8]>, alpha: &[char], cap: usize| -> String { p.unwrap_or(&[]).iter().take(cap).map(|b| alpha[*b as usize % alpha.len()]).collect() };
    let pattern = sec(parts.next(), PAT, 40);
    let input = sec(parts.next(), INP, 12);
    let replacement = sec(parts.next(), REP, 8);
    Some(Tuple { xsd: h & 128 != 0, pattern, flags, input, replacement })
}

/// inverse of `decode` for seeding the corpus (characters outside the alphabets are dropped)
pub fn encode(xsd: bool, pattern: &str, flags: &str, input: &str, replacement: &str) -> Vec<u8> {
    let mut h = 0u8;
    for (bit, c) in [(1u8, 's'), (2, 'm'), (4, 'i'), (8, 'x'), (16, 'q')] {
        if flags.contains(c) {
            h |= bit;
        }
    }
    if xsd {
        h |= 128;
    }
    let mut v = vec![h];
    let enc = |s: &str, alpha: &[char], v: &mut Vec<u8>| {
        for c in s.chars() {
            if let Some(i) = alpha.iter().position(|x| *x == c) {
                v.push(i as u8);
            }
        }
    };
    enc(pattern, PAT, &mut v);
    v.push(0xFF);
    enc(input, INP, &mut v);
    v.push(0xFF);
    enc(replacement, REP, &mut v);
    v
}
