#![no_main]
//! libFuzzer target for C05 / C06: drives the complete API surface on a decoded 4-tuple.
//! The semantic oracle is inside the target: no panic, no Error::Internal, iterator sizes bounded,
//! iterators stay exhausted. libFuzzer only finds; the harness re-runs and judges every artifact.
use libfuzzer_sys::fuzz_target;
use regexml::{Error, Regex};

#[path = "../../harness/src/fuzz_decode.rs"]
mod fuzz_decode;

fn internal(e: &Error) {
    if matches!(e, Error::Internal) {
        panic!("Error::Internal produced");
    }
}

fuzz_target!(|data: &[u8]| {
    let Some(t) = fuzz_decode::decode(data) else { return };
    let re = if t.xsd { Regex::xsd(&t.pattern, &t.flags) } else { Regex::xpath(&t.pattern, &t.flags) };
    let re = match re {
        Ok(r) => r,
        Err(e) => {
            internal(&e);
            return;
        }
    };
    let n = t.input.chars().count();
    let _ = re.is_match(&t.input);
    if let Err(e) = re.replace_all(&t.input, &t.replacement) {
        internal(&e);
    }
    match re.tokenize(&t.input) {
        Ok(mut it) => {
            let mut k = 0;
            while it.next().is_some() {
                k += 1;
                assert!(k <= n + 1, "tokenize yields more than len+1 tokens");
            }
            assert!(it.next().is_none() && it.next().is_none(), "tokenize yields Some after None");
        }
        Err(e) => internal(&e),
    }
    match re.analyze(&t.input) {
        Ok(mut it) => {
            let mut k = 0;
            while it.next().is_some() {
                k += 1;
                assert!(k <= 2 * n + 1, "analyze yields more than 2*len+1 entries");
            }
            assert!(it.next().is_none() && it.next().is_none(), "analyze yields Some after None");
        }
        Err(e) => internal(&e),
    }
});
