#![no_main]
//! libFuzzer target for C04: the cross-API relations are the oracle, inside the target. For every decoded
//! (pattern, flags, input) whose regex cannot match the empty string: analyze entries concatenate to the input,
//! NonMatch entries are non-empty and never adjacent, tokenize yields exactly the pieces between the analyze matches,
//! replace_all with a plain replacement is those pieces joined by it, and is_match says whether there is a match.
//! The harness re-runs and judges every artifact through partition_relations.
use libfuzzer_sys::fuzz_target;
use regexml::{AnalyzeEntry, MatchEntry, Regex};

#[path = "../../harness/src/fuzz_decode.rs"]
mod fuzz_decode;

fn text(v: &[MatchEntry], out: &mut String) {
    for e in v {
        match e {
            MatchEntry::String(s) => out.push_str(s),
            MatchEntry::Group { value, .. } => text(value, out),
        }
    }
}

fuzz_target!(|data: &[u8]| {
    let Some(t) = fuzz_decode::decode(data) else { return };
    let re = if t.xsd { Regex::xsd(&t.pattern, &t.flags) } else { Regex::xpath(&t.pattern, &t.flags) };
    let Ok(re) = re else { return };
    let input = &t.input;
    let n = input.chars().count();
    let (Ok(an), Ok(tk)) = (re.analyze(input), re.tokenize(input)) else {
        // both must refuse a regex that matches the empty string (tokenize accepts the empty input)
        if !input.is_empty() {
            assert!(re.analyze(input).is_err() && re.tokenize(input).is_err() && re.replace_all(input, "-").is_err(), "C04: the three APIs disagree on whether the regex matches the empty string");
        }
        return;
    };
    let entries: Vec<AnalyzeEntry> = an.take(2 * n + 2).collect();
    assert!(entries.len() <= 2 * n + 1, "C04: analyze yields more than 2*len+1 entries");
    let tokens: Vec<String> = tk.take(n + 2).collect();
    let mut all = String::new();
    let mut pieces: Vec<String> = vec![String::new()];
    let mut matched = false;
    let mut prev_non = false;
    for e in &entries {
        match e {
            AnalyzeEntry::NonMatch(s) => {
                assert!(!s.is_empty(), "C04: empty NonMatch");
                assert!(!prev_non, "C04: adjacent NonMatch entries");
                prev_non = true;
                all.push_str(s);
                pieces.last_mut().unwrap().push_str(s);
            }
            AnalyzeEntry::Match(v) => {
                prev_non = false;
                matched = true;
                let mut m = String::new();
                text(v, &mut m);
                assert!(!m.is_empty(), "C04: zero-length match from a regex that was accepted");
                all.push_str(&m);
                pieces.push(String::new());
            }
        }
    }
    assert_eq!(&all, input, "C04: analyze entries do not concatenate to the input");
    if input.is_empty() {
        assert!(tokens.is_empty(), "C04: tokens on the empty input");
    } else {
        assert_eq!(tokens, pieces, "C04: tokens differ from the pieces between analyze matches");
    }
    assert_eq!(re.is_match(input), matched, "C04: is_match disagrees with analyze");
    match re.replace_all(input, "-") {
        Ok(r) => assert_eq!(r, if input.is_empty() { String::new() } else { pieces.join("-") }, "C04: replace_all differs from the pieces joined"),
        Err(_) => panic!("C04: replace_all refuses what analyze and tokenize accept"),
    }
});
