#![no_main]
//! libFuzzer target for C02 and C03 (strict clause): bytes are decoded into a pattern AST (harness/src/fuzz_ast.rs);
//! where ordered choice is well defined (no quantifier over a body that can match the empty string, no back-reference
//! into a loop) the list of match spans reported by analyze, and the text of every group on those matches as
//! replace_all shows it, are compared with the ordered-choice reference matcher R2 of the harness, inside the target.
//! Exclusions are those of the checks: a ForceProgress cut-off fired, a back-reference to a group in a fixed-length
//! loop, a capture lost inside a loop (the listed capture finding), the reference ran out of budget.
use libfuzzer_sys::fuzz_target;
use regexml::{verif_hooks, AnalyzeEntry, MatchEntry, Regex};

#[path = "../../harness/src/proto.rs"]
#[allow(dead_code)]
mod proto;
#[path = "../../harness/src/ast.rs"]
#[allow(dead_code)]
mod ast;
#[path = "../../harness/src/ucd.rs"]
#[allow(dead_code)]
mod ucd;
#[path = "../../harness/src/oracle_lang.rs"]
#[allow(dead_code)]
mod oracle_lang;
#[path = "../../harness/src/oracle_bt.rs"]
#[allow(dead_code)]
mod oracle_bt;
#[path = "../../harness/src/fuzz_ast.rs"]
mod fuzz_ast;

fn len(v: &[MatchEntry]) -> usize {
    v.iter()
        .map(|e| match e {
            MatchEntry::String(s) => s.chars().count(),
            MatchEntry::Group { value, .. } => len(value),
        })
        .sum()
}

fuzz_target!(|data: &[u8]| {
    let Some(t) = fuzz_ast::decode(data) else { return };
    let node = ast::resolve(&t.node);
    if node.possibly_empty() || node.has_quantified_possibly_empty() || oracle_lang::backref_into_loop(&node) || node.backref_to_group_in_fixed_loop() {
        return;
    }
    let pattern = ast::render(&node, proto::Dialect::XPath);
    let _ = verif_hooks::take_force_progress_cutoffs();
    let Ok(re) = Regex::xpath(&pattern, &t.flags) else { return };
    let f = oracle_lang::Flags { i: t.flags.contains('i'), m: t.flags.contains('m'), s: t.flags.contains('s') };
    let ng = node.n_groups() as usize;
    let in_loops = node.groups_in_loops();
    for input in &t.inputs {
        let s: Vec<char> = input.chars().collect();
        let Ok(it) = re.analyze(input) else { return };
        let entries: Vec<AnalyzeEntry> = it.take(2 * s.len() + 2).collect();
        let cut = verif_hooks::take_force_progress_cutoffs();
        let mut spans = vec![];
        let mut pos = 0;
        for e in &entries {
            match e {
                AnalyzeEntry::NonMatch(x) => pos += x.chars().count(),
                AnalyzeEntry::Match(v) => {
                    let l = len(v);
                    spans.push((pos, pos + l));
                    pos += l;
                }
            }
        }
        let bt = oracle_bt::Bt::new(&node, &s, f);
        let Some(ms) = bt.find_all(&node) else { continue };
        let want: Vec<(usize, usize)> = ms.iter().map(|m| (m.start, m.end)).collect();
        if cut != 0 {
            continue;
        }
        if spans != want {
            panic!("C02: spans of {pattern:?} {:?} on {input:?}: engine {spans:?}, ordered-choice reference {want:?}", t.flags);
        }
        // captures (C03): groups outside every quantifier, read through replace_all with one marker per group
        if ng == 0 || ng > 9 {
            continue;
        }
        let mut rep = String::from("\u{1}");
        for g in 1..=ng {
            rep.push_str(&format!("${g}\u{2}"));
        }
        let Ok(out) = re.replace_all(input, &rep) else { continue };
        if verif_hooks::take_force_progress_cutoffs() != 0 {
            continue;
        }
        let chunks: Vec<&str> = out.split('\u{1}').skip(1).collect();
        if chunks.len() != ms.len() {
            continue;
        }
        for (k, m) in ms.iter().enumerate() {
            let texts: Vec<&str> = chunks[k].split('\u{2}').collect();
            for g in 1..=ng {
                let want: String = m.caps[g].map(|(a, b)| s[a..b].iter().collect()).unwrap_or_default();
                let got = texts.get(g - 1).copied().unwrap_or("");
                if got != want {
                    // the listed finding KF-captures-in-loop: a capture inside a loop is lost (never: replaced by other text)
                    if got.is_empty() && in_loops.contains(&(g as u32)) {
                        continue;
                    }
                    panic!("C03: ${g} of {pattern:?} {:?} on {input:?} match #{k}: engine {:?}, reference {want:?}", t.flags, texts.get(g - 1));
                }
            }
        }
    }
});
