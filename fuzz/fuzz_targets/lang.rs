#![no_main]
//! libFuzzer target for C01 (and the nullability half of C16): bytes are decoded into a pattern AST, flags and inputs;
//! the AST is rendered and compiled, and is_match is compared with the R1 language model of the harness, inside the
//! target. A difference panics unless it lies in a listed finding's region (a ForceProgress cut-off fired, or the
//! pattern back-references a group inside a fixed-length loop) or the two capture readings of R1 disagree.
//! The harness re-runs and judges every artifact through check_is_match / C16's check.
use libfuzzer_sys::fuzz_target;
use regexml::{verif_hooks, Error, Regex};

#[path = "../../harness/src/proto.rs"]
#[allow(dead_code)]
mod proto;
#[path = "../../harness/src/ast.rs"]
#[allow(dead_code)]
mod ast;
#[path = "../../harness/src/ucd.rs"]
#[allow(dead_code)]
mod ucd;
#[path = "../../harness/src/oracle_lang.rs"]
#[allow(dead_code)]
mod oracle_lang;
#[path = "../../harness/src/fuzz_ast.rs"]
mod fuzz_ast;

use oracle_lang::Tri;

fuzz_target!(|data: &[u8]| {
    let Some(t) = fuzz_ast::decode(data) else { return };
    let node = ast::resolve(&t.node);
    let pattern = ast::render(&node, proto::Dialect::XPath);
    let _ = verif_hooks::take_force_progress_cutoffs();
    let re = match Regex::xpath(&pattern, &t.flags) {
        Ok(r) => r,
        Err(e) => panic!("C07: rendered AST rejected: {pattern:?} {e:?}"),
    };
    let compile_cut = verif_hooks::take_force_progress_cutoffs();
    let f = oracle_lang::Flags { i: t.flags.contains('i'), m: t.flags.contains('m'), s: t.flags.contains('s') };
    let in_fixed_loop_region = node.backref_to_group_in_fixed_loop();
    // nullability (C16)
    if compile_cut == 0 && !in_fixed_loop_region {
        let engine_nullable = matches!(re.replace_all("a", "x"), Err(Error::MatchesEmptyString));
        let cut = verif_hooks::take_force_progress_cutoffs();
        match oracle_lang::matches_empty(&node, f) {
            Tri::True if !engine_nullable && cut == 0 => panic!("C16: {pattern:?} {:?} matches the empty string but is accepted by replace_all", t.flags),
            Tri::False if engine_nullable && cut == 0 => panic!("C16: {pattern:?} {:?} cannot match the empty string but replace_all refuses it", t.flags),
            _ => {}
        }
    }
    for input in &t.inputs {
        let s: Vec<char> = input.chars().collect();
        let engine = re.is_match(input);
        let cut = verif_hooks::take_force_progress_cutoffs() + compile_cut;
        let want = match oracle_lang::is_match(&node, &s, f) {
            Tri::True => true,
            Tri::False => false,
            _ => continue,
        };
        if engine != want && cut == 0 && !in_fixed_loop_region {
            panic!("C01: is_match({pattern:?}, {:?}, {input:?}) = {engine}, language model says {want}", t.flags);
        }
    }
});
