#![no_main]
//! libFuzzer target for C08: every decoded (pattern, flags, input, replacement) is run on the normally compiled regex
//! and on the same pattern compiled with every optimisation off (verification hook). The oracle is inside the target:
//! any difference in acceptance or in a result panics, unless a ForceProgressIterator cut-off fired on either side
//! (the listed finding KF-nullable-repeat). The harness re-runs and judges every artifact through check_opt_str.
use libfuzzer_sys::fuzz_target;
use regexml::{verif_hooks, Error, Regex};

#[path = "../../harness/src/fuzz_decode.rs"]
mod fuzz_decode;

fn kind(e: &Error) -> String {
    let s = format!("{e:?}");
    s.split(|c: char| !c.is_alphanumeric()).next().unwrap_or("").to_string()
}

fn all(re: &Regex, input: &str, rep: &str) -> Vec<String> {
    let mut v = vec![format!("{}", re.is_match(input))];
    v.push(match re.replace_all(input, rep) {
        Ok(s) => s,
        Err(e) => format!("Err({})", kind(&e)),
    });
    v.push(match re.tokenize(input) {
        Ok(it) => format!("{:?}", it.take(64).collect::<Vec<_>>()),
        Err(e) => format!("Err({})", kind(&e)),
    });
    v.push(match re.analyze(input) {
        Ok(it) => format!("{:?}", it.take(64).collect::<Vec<_>>()),
        Err(e) => format!("Err({})", kind(&e)),
    });
    v
}

fuzz_target!(|data: &[u8]| {
    let Some(t) = fuzz_decode::decode(data) else { return };
    let compile = |no_opt: bool| {
        verif_hooks::set_optimizations_disabled(no_opt);
        let r = if t.xsd { Regex::xsd(&t.pattern, &t.flags) } else { Regex::xpath(&t.pattern, &t.flags) };
        verif_hooks::set_optimizations_disabled(false);
        r
    };
    let _ = verif_hooks::take_force_progress_cutoffs();
    let (a, b) = (compile(false), compile(true));
    let (a, b) = match (a, b) {
        (Ok(a), Ok(b)) => (a, b),
        (Err(x), Err(y)) => {
            if verif_hooks::take_force_progress_cutoffs() == 0 {
                assert_eq!(kind(&x), kind(&y), "C08: error kinds differ");
            }
            return;
        }
        (x, y) => {
            if verif_hooks::take_force_progress_cutoffs() == 0 {
                panic!("C08: acceptance differs: optimised ok={} unoptimised ok={}", x.is_ok(), y.is_ok());
            }
            return;
        }
    };
    let (ra, rb) = (all(&a, &t.input, &t.replacement), all(&b, &t.input, &t.replacement));
    if ra != rb && verif_hooks::take_force_progress_cutoffs() == 0 {
        panic!("C08: results differ: {ra:?} vs {rb:?}");
    }
});
