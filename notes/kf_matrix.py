#!/usr/bin/env python3
"""Replay a family of witnesses of every known finding through every check that shares a checker, and print what each
reports: KNOWN-FINDING (attributed), Pass (that check does not see it), or the sub= line of a violation (a
(property, symptom) combination that known_findings.json does not list yet).  Used while building; not run by checks.
usage: notes/kf_matrix.py            (needs harness/target/release/verif built)"""
import sys, json, subprocess
sys.path.insert(0, '/verif/notes')
from add_kf import *
NS = {"Esc": {"kind": "Space", "neg": True}}
dup = rep(ncap(alt(lit('a'), lit('a'), lit('a'), lit('a'), lit('a'), cat(lit('a'), lit('b')))), 0, None)
fam = {
 # KF-fixed-loop-backref
 "flb1": (cat("Bol", rep(ncap(alt(cap("Dot"), lit('a'))), 0, 1), bref(0), "Eol"), ["a"]),
 "flb2": (cat(rep(alt(cap(lit('a')), NS), 0, 1, greedy=False), bref(0), {"Class": {"items": [{"Range": ["a", "c"]}], "neg": True, "sub": None}}), ["ad"]),
 "flb3": (cat(rep(ncap(alt(lit('x'), cap(lit('x')))), 0, 1, greedy=False), lit('a'), bref(0), lit('a')), ["xaxa"]),
 "flb4": (cat(lit('x'), rep(ncap(alt(cap(lit('a')), lit('a'))), 0, 1), bref(0), rep(lit('b'), 0, None)), ["xab"]),
 "flb6": (cat(ncap(alt(lit('a'), rep(lit('a'), 0, 0, greedy=False, brace=True))), rep(ncap(alt(cap(lit('A')), lit('a'))), 0, 1, greedy=False), cap(cat(bref(0), lit('b')))), ["AAbabB"]),
 # KF-captures-in-loop
 "cil1": (cat(rep(ncap(alt(lit('A'), cap(lit('a')))), 1, None), cap(lit('A')), bref(40000)), ["aAAAa"]),
 "cil2": (cat(rep(ncap(alt(lit('b'), cap("Dot"))), 0, None), lit('a')), ["cba"]),
 # KF-empty-group-for-nonparticipant
 "egn1": (cat(rep(cap(lit('a')), 0, 1), lit('a')), ["a"]),
 "egn2": (cat(rep(cap(lit('a')), 0, 1), ncap(alt(cap(lit('a')), lit('a'))), bref(0)), ["a"]),
 # KF-nullable-repeat
 "nr1": (cat("Bol", rep(cap(rep("Dot", 0, None)), 1, None), lit('B')), ["AB"]),
 "nr2": (cat("Bol", rep(ncap(rep("Dot", 0, None)), 1, None), lit('B'), cap(lit('a')), bref(0)), ["ABaa"]),
 "nr3": (cat(lit('b'), rep(rep(alt("Dot", "Empty"), 0, 3, brace=True), 0, 2, brace=True), lit('a'), lit('A'), lit('a')), ["bAaAa"]),
 "nr4": (alt(cat(dup, lit('c')), cat(lit('a'), lit('b'))), ["abc"]),
 "nr5": (cat(cap(lit('x')), bref(0), ncap(alt(cat(dup, lit('c')), cat(lit('a'), lit('b'))))), ["xxabc"]),
 "nr6": (cat(dup, lit('c')), ["abc"]),
}
def wrap(p, a):
    if p in ("C01", "C02", "C03", "C12", "C16"): return a
    if p == "C19": return {"Ast": a}
    if p == "C11": return {"ast": a, "swap_in": [0], "swap_pat": 0}
    if p == "C08": return {"ast": a, "rep": "[$0]"}
for name, (node, inputs) in fam.items():
    for p in ["C01", "C02", "C03", "C12", "C19", "C11", "C08"]:
        json.dump({"property": p, "case": wrap(p, ast(node, "i" if name == "flb6" else "", inputs))}, open('/tmp/kf_w.json', 'w'))
        r = subprocess.run(["/verif/harness/target/release/verif", "replay", "/tmp/kf_w.json"], capture_output=True, text=True)
        out = r.stdout + r.stderr
        sub = [l.strip()[:170] for l in out.splitlines() if l.strip().startswith('sub=')]
        first = out.splitlines()[0][:70] if out.splitlines() else ''
        print(name, p, "UNLISTED " + sub[0] if sub else first)
