#!/bin/bash
# Sensitivity runs in a scratch copy (never in /repo):  sens.sh setup | sens.sh run <patch.diff|revert:<commit>> <ID>... | sens.sh clean
# Results are appended to /verif/notes/sensitivity.log
S=${SENS_DIR:-/tmp/sens}
case "$1" in
 setup)
  rm -rf $S; mkdir -p $S
  git clone -q /repo $S/repo && cp /repo/Cargo.lock $S/repo/
  rsync -a --exclude target /verif/harness $S/
  sed -i "s#path = \"/repo/regexml\"#path = \"$S/repo/regexml\"#" $S/harness/Cargo.toml
  ;;
 sync)
  # refresh harness sources, corpus and known findings from /verif; repo to /repo HEAD
  rsync -a --exclude target /verif/harness/src $S/harness/
  git -C $S/repo fetch -q origin && git -C $S/repo reset -q --hard origin/HEAD 2>/dev/null || git -C $S/repo pull -q
  ;;
 run)
  what="$2"; shift 2
  cd $S/repo && git checkout -q -- . && git clean -fdq regexml/src
  if [[ "$what" == revert:* ]]; then
    if ! git revert -n "${what#revert:}" >/dev/null 2>&1; then echo "$what: revert conflicts, skipped" | tee -a /verif/notes/sensitivity.log; git revert --abort 2>/dev/null; git checkout -q -- .; exit 0; fi
  else
    git apply "$what" || { echo "$what: patch does not apply" | tee -a /verif/notes/sensitivity.log; exit 0; }
  fi
  rm -rf $S/corpus $S/known_findings.json; cp -r /verif/corpus $S/corpus; cp /verif/known_findings.json $S/
  cd $S/harness && if ! cargo build --release --offline >build.log 2>&1; then echo "$what: build failed" | tee -a /verif/notes/sensitivity.log; cd $S/repo; git revert --abort 2>/dev/null; git checkout -q -- .; exit 0; fi
  for id in "$@"; do
    s=$(date +%s)
    out=$(VERIF_DIR=$S ./target/release/verif check $id --tier ${TIER:-quick} --seed ${VERIF_SEED:-0} 2>&1); rc=$?
    e=$(date +%s)
    echo "$what :: $id rc=$rc $((e-s))s :: $(echo "$out" | grep -E '^(VIOLATION|OK|harness)' | head -1 | cut -c1-160) $(echo "$out" | grep -E '^  sub=' | head -1 | cut -c1-260)" | tee -a /verif/notes/sensitivity.log
  done
  cd $S/repo; git revert --abort 2>/dev/null; git checkout -q -- .; git clean -fdq regexml/src
  ;;
 clean) rm -rf $S ;;
esac
