#!/usr/bin/env python3
# helper used while building known_findings.json (not used at check time)
import json,sys
def add(**kw):
    k=json.load(open('/verif/known_findings.json'))
    k['open']=[f for f in k['open'] if not (f['id']==kw['id'] and f['property']==kw['property'] and f['symptom']==kw['symptom'] and f['region']==kw['region'])]
    k['open'].append(kw)
    json.dump(k,open('/verif/known_findings.json','w'),indent=1,ensure_ascii=False)
CAP=4294967295
def lit(c): return {"Lit":c}
def cap(b): return {"Group":[CAP,b]}
def ncap(b): return {"Group":[0,b]}
def rep(b,mn,mx,greedy=True,brace=False): return {"Rep":{"body":b,"min":mn,"max":mx,"greedy":greedy,"brace":brace}}
def cat(*v): return {"Cat":list(v)}
def alt(*v): return {"Alt":list(v)}
def bref(sel=0): return {"BackRef":sel}
def ast(node,flags,inputs): return {"node":node,"flags":flags,"inputs":{"Lit":inputs}}
