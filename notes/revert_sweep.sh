#!/bin/bash
# re-introduce each repaired defect (git revert -n of its fix commit) in the scratch copy and run the checks that should notice
cd /verif && notes/sens.sh sync >/dev/null 2>&1
run() { h=$(git -C /repo log --format="%h %s" | grep -F -- "fix: $1" | head -1 | cut -d" " -f1); if [ -z "$h" ]; then h=$(git -C /repo log --format="%h %s" | grep -E -- "fix: $1" | head -1 | cut -d" " -f1); fi; notes/sens.sh run "revert:$h" "${@:2}"; }
run "case-blind first-character set of a lite" C01 C08 C11
run "a repeat followed by . or . was always t" C01 C08 C12
run "analyze panicked on a zero-length group " C05
run "analyze panicked with flag q when the li" C05 C13
run "a reluctant quantifier on an anchor was " C07
run "reluctant quantifier over a zero-width t" C06
run "a greedy quantifier with minimum >= 1 on" C01 C12 C20
run ".n,m. on a term that can match the empty" C20 C01
run "a back-reference to a group that did not" C19 C16 C01
run "iteration bound of a repeat ignored the " C01 C16
run "a precondition at a fixed position beyon" C05
run "flag x also removed form feed from the p" C14
run "match-length arithmetic overflowed for v" C05
run "groups inside a greedy fixed-length loop" C03
run "a failed attempt at a group overwrote th" C19 C01
run "with flag i the last character before '-" C11
run "the zero-iterations memo of a repeat ign" C19 C01
run "the .a... to .a... rewrite was also appl" C03 C02
run "in multi-line mode a . inside the patter" C01 C08 C12
run "a group abandoned by backtracking still " C03
run "a reluctant fixed-length loop wiped the " C03
run "simplifications for a quantified nullabl" C03
run "groups kept the capture of an abandoned " C03
run "a greedy repeat with minimum 0 lost one " C01 C12
run "a repeat followed by a term that can mat" C01 C08
run "reluctant repeat of a variable-length te" C06 C01
run "a fixed-length loop over a term of lengt" C05
run "a greedy repeat with a huge minimum iter" C06 C05
run "a repeat that had offered zero iteration" C01 C02 C08 C20
