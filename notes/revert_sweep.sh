#!/bin/bash
# re-introduce each repaired defect (git revert -n of its fix commit) in the scratch copy and run the checks that should notice
cd /verif && notes/sens.sh sync >/dev/null 2>&1
run() { notes/sens.sh run "revert:$1" "${@:2}"; }
run 61246ca C01 C08 C11
run 09f27bc C01 C08 C12
run 1505bfc C05
run 54a5e36 C05 C13
run 8bb1c85 C07
run 85b6504 C06
run 1d46801 C01 C12 C20
run 76bccec C20 C01
run 786387f C19 C16 C01
run c72ffdf C01 C16
run b990f38 C05
run 3a9c6e3 C14
run 44afbd3 C05
run f5f04e7 C03
run 4065433 C19 C01
run d857181 C11
run d9236bd C19 C01
run 597712c C03 C02
run acd1075 C01 C08 C12
run eb86418 C03
run c60f81b C03
run e3ef430 C03
run 2697a7d C03
run c5b2116 C01 C12
run 3ccfb67 C01 C08
run 00e0c88 C06 C01
run 5607525 C05
run 7f797e0 C06 C05
