#!/usr/bin/env python3
# regenerates /verif/MANIFEST.json from the table below
import json,subprocess
props=[json.loads(l) for l in open('/verif/properties.jsonl')]
ids=[p['id'] for p in props]
T={
 "C01":("differential vs denotational language model (R1); two bounded-exhaustive scopes (small ASTs x flags; nested quantifiers over macro atoms) + seeded random ASTs with shrinking (+ structure-aware libFuzzer target with R1 as in-target oracle in thorough)","4 C01",
        "is_match is compared with an order-independent language-membership model on every AST of size <=4 (quick) / <=5 (thorough) over a 3-letter alphabet x all short inputs x all subsets of i,m,s, and on seeded random structured patterns; a mismatch is shrunk and reported unless it is the listed ForceProgress / fixed-loop-backref finding",
        "trusts the R1 model (harness/src/oracle_lang.rs) and the R3/R4 character data; explores patterns <= ~20 nodes and inputs <= 8 characters; the scaled part scales one quantity (bound, literal length, alternatives, groups, nesting) to 5-40 with inputs up to 160 characters"),
 "C02":("differential vs ordered-choice reference matcher (R2) and R1 match relation; two bounded-exhaustive scopes + seeded random ASTs with shrinking (+ structure-aware libFuzzer target with R2 as in-target oracle in thorough)","4 C02",
        "the span list observed through analyze/replace_all/tokenize is compared with a Perl-style backtracking reference where mainstream engines agree, and with leftmost/membership clauses from R1 everywhere else",
        "trusts R2 (harness/src/oracle_bt.rs) as the definition of ordered choice; patterns back-referencing a group inside a loop are skipped"),
 "C03":("differential vs R2 last-participation captures + structural invariants of the analyze tree; two bounded-exhaustive scopes + seeded random ASTs with shrinking (+ structure-aware libFuzzer target with R2 as in-target oracle in thorough)","4 C03",
        "group texts from replace_all ($N with non-digit delimiters) and analyze (Group tree) are compared with the reference's captures on matches whose spans agree with R2, and checked structurally on every match",
        "two listed known findings mask: empty Group for a non-participating group under a quantifier; wrong text for a group inside a loop"),
 "C04":("cross-API metamorphic relations; two bounded-exhaustive scopes + seeded random ASTs in both dialects with shrinking (+ libFuzzer target with the relations as in-target oracle in thorough)","4 C04",
        "pure relations between the three scanning APIs and is_match on the same input; no reference matcher involved, so it runs inside all known-finding regions too",
        "patterns the engine itself reports as nullable are left to C16"),
 "C05":("crash oracle over generated 4-tuples (valid ASTs, token-level mutants, random metacharacter strings, extreme bounds, precondition shapes) in worker processes with overflow checks on; libFuzzer campaign in the thorough tier","4 C05",
        "every API call and iterator step must end in Ok or one of the four classified errors; panics, overflow, aborts and Error::Internal are violations",
        "built with debug-assertions/overflow-checks; hangs are left to C06"),
 "C06":("bounded termination observation under a CPU-time watchdog with single-character-deletion growth test; bounded-exhaustive nested-quantifier scope + seeded random quantifier-heavy patterns, anchored ones after a compilation of the same text under the other dialect (+ libFuzzer in thorough)","4 C06",
        "calls must return and iterators must respect len+1 / 2*len+1 and stay exhausted; a call is judged non-terminating only if it exceeds 0.5 s then 10 s of CPU and every single-character deletion of the minimal such input returns in < 2 ms",
        "liveness is only observed within bounds (inputs <= 8, nesting <= 3); finite exponential backtracking is deliberately not reported"),
 "C08":("differential: same engine with all compile-time shortcuts disabled through the verification hook; two bounded-exhaustive scopes + generators biased to each shortcut (+ libFuzzer target with the differential as in-target oracle in thorough)","4 C08",
        "all five APIs must agree value for value between the normal and the unoptimised compilation of the same pattern",
        "needs the cfg(regexml_verif) hook; parse-time quantifier simplifications are on both sides"),
 "C12":("differential vs R1/R2 with the anchor and dot rules; exhaustive inputs over {a,b,LF,CR} for all small anchor/dot ASTs + seeded random","4 C12",
        "is_match and span lists for patterns with ^, $ and . in arbitrary positions under the four m/s combinations",
        "same trust as C01/C02"),
 "C16":("differential vs R1 nullability (does the language contain the empty string); two bounded-exhaustive scopes + seeded random ASTs, half of them nullable (+ structure-aware libFuzzer target with R1 as in-target oracle in thorough)","4 C16",
        "Err(MatchesEmptyString) from replace_all/analyze/tokenize must coincide with the oracle's answer; accepted regexes must never report a zero-length match",
        "trusts R1; patterns where the two capture readings disagree are not judged"),
 "C19":("differential vs R1 (all match paths with capture environments) and R2; multi-digit reference parsing checked behaviourally","4 C19",
        "is_match, spans and captures of patterns with back-references, plus the longest-number reading of \\N followed by digits",
        "both capture readings accepted when the referenced group is inside a loop; listed findings: fixed-length loop with back-referenced group, ForceProgress cut-off"),
 "C20":("metamorphic: one algebraic rewrite at one position, both spellings run on the same inputs; two bounded-exhaustive scopes (every law at three sites of every small pattern) + seeded random ASTs with shrinking","4 C20",
        "is_match and span lists must be equal for twelve rewrite laws, each exercised with a measured minimum share",
        "copying laws only applied to terms without groups/back-references"),
}

T.update({
 "C07":("accept/reject oracle from the grammar: rendered ASTs and curated valid patterns per production (must accept), curated provably-invalid mutations each with its grammar argument (must reject with Syntax), generated group skeletons with one back-reference whose legality a closed-groups model decides, exhaustive flag strings <= 3","4 C07",
        "acceptance of Regex::xpath is compared with the grammar in both directions; every production must be exercised (vacuity guard per production)",
        "random mutants without a grammar argument are not judged (they go to C05); debatable XSD corners ([a-c-e]) are not generated"),
 "C09":("differential vs set algebra over independent Unicode data (R4/R3); bulk membership over 4096-code-point chunks, all scalar values for a sample of expressions","4 C09",
        "membership of scalar values in generated class expressions, in bulk through replace_all and at set boundaries in six syntactic positions",
        "trusts ICU4X general-category data for the escapes inside classes"),
 "C10":("exhaustive enumeration: every category / group / multi-character escape x all 1,112,064 scalar values, every block escape x its neighbourhood (quick) or all scalar values (thorough), against R3","4 C10",
        "bulk membership via replace_all plus anchored is_match at every set boundary; unknown names must be rejected; block.rs must equal the generator's output",
        "trusted base: ICU4X 1.5 property data accessed through a different API path, Blocks.txt as shipped"),
 "C11":("differential vs R1/R2 with the case-blind rule + metamorphic case swaps of input and pattern + monotonicity; alphabets validated at start-up; bounded-exhaustive small scope + seeded random ASTs with shrinking","4 C11",
        "flag i on literals, class chars, ranges and back-references over ASCII, Latin-1, Greek, Cyrillic and Deseret letters with one-to-one case mappings",
        "characters with more than one case counterpart are outside the alphabets; swap relations not applied when the pattern contains a case-sensitive escape such as \\p{Lu}"),
 "C13":("differential vs literal substring search / split / replace; random metacharacter-heavy literals","4 C13",
        "all APIs under flag q (alone and with i, m, s, x) against plain string semantics, including the empty literal",
        "case-blind comparison limited to ASCII letters in the generated alphabet"),
 "C14":("metamorphic by construction: whitespace inserted at arbitrary gaps outside classes under x vs the original pattern; inside-class and non-XML-whitespace variants with vs without x","4 C14",
        "equivalence of acceptance and of all API results between the two spellings",
        "class extents are computed by an independent scan of the rendered (valid) pattern"),
 "C15":("differential vs an independent replacement-expansion function over the engine's own analyze match list; exhaustive replacement strings <= 4 (quick) / <= 5 (thorough) over {$,\\,0,1,2,9,a}","4 C15",
        "replace_all output or InvalidReplacementString for every replacement string in scope on patterns with 0..13 groups",
        "match spans and group texts come from analyze, so matching defects cannot leak in"),
 "C17":("differential between the two dialect constructors on one pattern text, tags of XPath-only constructs from the AST; R1 with anchors as literals for xsd; bounded-exhaustive small scope + seeded random ASTs with shrinking","4 C17",
        "xsd rejects exactly the XPath-only constructs, agrees with xpath on the common subset, and treats ^ and $ as literals",
        "trusts R1 for the anchors-as-literals clause"),
 "C18":("model-based call histories (fresh object per call as the model) executed in order with interleaved iterators, shuffled, and from 4 threads, a quarter on an object already used 70 or 140 times; compile-time Send+Sync assertion crate","4 C18",
        "every call result in every execution must equal the result on a freshly compiled Regex",
        "threads are a stress, not schedule enumeration"),
})
checks=[]
na=[]
for p in ids:
    if p in T:
        tech,ref,text,note=T[p]
        checks.append({"property_id":p,"quick_cmd":f"bin/check {p} quick","thorough_cmd":f"bin/check {p} thorough","evidence_file":f"/verif/evidence/{p}.json",
            "replay_cmd_template":"bin/check replay {path}","engine":"verif-harness",
            "level_claimed":{"category":"exploration","text":text,"design_ref":"DESIGN.md section "+ref},"level_note":note,"technique":tech})
    else:
        na.append({"property_id":p,"reason":"check not built yet (work in progress; see DESIGN.md section 4)"})
hooks=subprocess.run("git -C /repo log --format=%h --grep='^verif hooks'",shell=True,capture_output=True,text=True).stdout.split()
m={"version":1,
 "setup_cmd":"cd harness && CARGO_NET_OFFLINE=true cargo build --release --offline",
 "hooks":{"guard":"--cfg regexml_verif","enable":"harness/.cargo/config.toml sets build.rustflags = [\"--cfg\", \"regexml_verif\"]; it applies to the path dependency /repo/regexml, so every check rebuilds regexml from /repo's working tree with the hooks on",
          "baseline_off_cmd":"cd /repo && cargo test --workspace --no-fail-fast --offline","source_commits":hooks,"add_only":True},
 "engines":[{"name":"verif-harness","path":"harness/","serves_properties":[c["property_id"] for c in checks],"kind_free_text":"Rust binary: proptest-driven generators with shrinking, bounded-exhaustive enumerators, reference oracles, worker processes with CPU watchdog"}],
 "checks":checks,"not_applicable":na,
 "notes":"exit codes: 0 held, 1 VIOLATION, 2 infrastructure/inconclusive. known_findings.json lists genuine defects that are recorded rather than repaired; checks print KNOWN-FINDING lines for them."}
json.dump(m,open('/verif/MANIFEST.json','w'),indent=1)
print(len(checks),"checks",len(na),"n/a")
