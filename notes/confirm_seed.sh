#!/bin/bash
# confirm a seeded change: applies in a scratch clone, suite passes with it, demo fails with it and passes without
# usage: confirm_seed.sh <dir with patch.diff and demo_seeded.rs> [patch file name]
D="$1"; PATCH="${2:-patch.diff}"
R=${SENS_DIR:-/tmp/sens}/repo
cd $R && git checkout -q -- . && git clean -fdq regexml
git apply "$D/$PATCH" || { echo "CONFIRM $D: patch does not apply"; exit 1; }
suite=$(timeout 900 cargo test --workspace --no-fail-fast --offline 2>&1 | grep -E "^test result" | awk '{p+=$4; f+=$6} END{print "passed="p" failed="f}')
cp "$D/demo_seeded.rs" regexml/tests/demo_seeded.rs
with=$(timeout 600 cargo test --offline -p regexml --test demo_seeded 2>&1 | grep -E "^test result" | head -1)
git checkout -q -- .
without=$(timeout 600 cargo test --offline -p regexml --test demo_seeded 2>&1 | grep -E "^test result" | head -1)
rm -f regexml/tests/demo_seeded.rs
echo "CONFIRM $D [$PATCH]: suite-with-change: $suite | demo-with-change: $with | demo-without: $without"
