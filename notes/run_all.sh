#!/bin/bash
# run every quick check with the given seeds; print one line per run
for seed in "$@"; do
  for id in C01 C02 C03 C04 C05 C06 C07 C08 C09 C10 C11 C12 C13 C14 C15 C16 C17 C18 C19 C20; do
    s=$(date +%s)
    out=$(VERIF_SEED=$seed bin/check $id quick 2>&1); rc=$?
    e=$(date +%s)
    echo "seed=$seed $id rc=$rc $((e-s))s $(echo "$out" | grep -E '^(OK|VIOLATION|harness)' | head -2 | cut -c1-300)"
  done
done
